"""Reference-guided canonicalisation (second stage of the loader's canonical form).

The rules identify roles by the names and shapes of the pinned tree.  A maintainer's behaviour-preserving refactoring
(extract/inline a helper or a local, name a magic number, reshape an if/else, turn a guard clause into a nested if) changes
those names and shapes without changing behaviour.  The passes below undo such refactorings *when, and only when, the
construct involved does not exist in the reference inventory of the pinned tree* (`sa/reference.json`, written by
tools/mklocalnames.py): the unchanged tree is a fix point by construction, and every rewrite is semantics-preserving, so
the rules afterwards analyse a program equivalent to the one on disk.

  inline_fresh_constants  a module- or class-level name the reference does not have, bound once to a literal, is replaced
                          by the literal where it is read
  inline_fresh_helpers    a function/method the reference does not have, called from the same module, is expanded at
                          its call sites (expression helpers anywhere; statement helpers at statement-level call sites)
  normalise_control_flow  an `if` whose test is unknown to the reference function but whose negation is known is turned
                          round (branches swapped; guard clause <-> nested form), chained comparisons are split
"""
from __future__ import annotations

import ast
import copy
from typing import Dict, List, Optional, Set

_EXITS = (ast.Return, ast.Raise, ast.Continue, ast.Break)


# ----------------------------------------------------------------------------------------------- small helpers
def _u(e) -> str:
    return ast.unparse(e)


def _is_literal(e: ast.expr) -> bool:
    if isinstance(e, ast.Constant):
        return isinstance(e.value, (int, float, str, bytes, bool, type(None)))
    if isinstance(e, ast.UnaryOp) and isinstance(e.op, (ast.USub, ast.Invert)) and isinstance(e.operand, ast.Constant):
        return True
    if isinstance(e, ast.Tuple):          # immutable values only: replacing a name by a list/dict display would un-share one object
        return all(_is_literal(x) for x in e.elts)
    if isinstance(e, ast.BinOp) and isinstance(e.op, (ast.LShift, ast.BitOr, ast.Add, ast.Sub, ast.Mult)):
        return _is_literal(e.left) and _is_literal(e.right)
    return False


def always_exits(stmts: List[ast.stmt]) -> bool:
    if not stmts:
        return False
    last = stmts[-1]
    if isinstance(last, _EXITS):
        return True
    if isinstance(last, ast.If) and last.orelse:
        return always_exits(last.body) and always_exits(last.orelse)
    return False


def blocks_of(fn: ast.AST):
    out = []

    def rec(node):
        for fld in ("body", "orelse", "finalbody"):
            b = getattr(node, fld, None)
            if isinstance(b, list) and b and isinstance(b[0], ast.stmt):
                out.append((node, fld, b))
                for st in b:
                    if not isinstance(st, (ast.FunctionDef, ast.ClassDef)):
                        rec(st)
        for h in getattr(node, "handlers", []) or []:
            out.append((h, "body", h.body))
            for st in h.body:
                rec(st)
    rec(fn)
    return out


# ----------------------------------------------------------------------------------------------- tests: negation, normal form
_INV = {ast.Eq: ast.NotEq, ast.NotEq: ast.Eq, ast.Lt: ast.GtE, ast.GtE: ast.Lt, ast.Gt: ast.LtE, ast.LtE: ast.Gt,
        ast.Is: ast.IsNot, ast.IsNot: ast.Is, ast.In: ast.NotIn, ast.NotIn: ast.In}
_MIRROR = {ast.Lt: ast.Gt, ast.Gt: ast.Lt, ast.LtE: ast.GtE, ast.GtE: ast.LtE, ast.Eq: ast.Eq, ast.NotEq: ast.NotEq}


def split_chain(e: ast.expr) -> ast.expr:
    """a < b <= c  ->  a < b and b <= c  (b is evaluated twice: only done when b is a name, attribute, constant or len())."""
    if isinstance(e, ast.Compare) and len(e.ops) > 1:
        mids = e.comparators[:-1]
        if all(isinstance(m, (ast.Name, ast.Attribute, ast.Constant)) or (isinstance(m, ast.Call) and _u(m.func) == "len") for m in mids):
            parts = []
            left = e.left
            for op, c in zip(e.ops, e.comparators):
                parts.append(ast.Compare(left=copy.deepcopy(left), ops=[op], comparators=[copy.deepcopy(c)]))
                left = c
            return ast.BoolOp(op=ast.And(), values=parts)
    return e


def negate(e: ast.expr) -> ast.expr:
    e = split_chain(e)
    if isinstance(e, ast.UnaryOp) and isinstance(e.op, ast.Not):
        return copy.deepcopy(e.operand)
    if isinstance(e, ast.Compare) and len(e.ops) == 1 and type(e.ops[0]) in _INV:
        return ast.Compare(left=copy.deepcopy(e.left), ops=[_INV[type(e.ops[0])]()], comparators=[copy.deepcopy(e.comparators[0])])
    if isinstance(e, ast.BoolOp):
        return ast.BoolOp(op=ast.Or() if isinstance(e.op, ast.And) else ast.And(), values=[negate(v) for v in e.values])
    return ast.UnaryOp(op=ast.Not(), operand=copy.deepcopy(e))


def _key(e: ast.expr) -> str:
    """Order-insensitive text of a test: comparisons mirrored to a fixed direction, and/or operands sorted, `not` pushed in."""
    e = split_chain(e)
    if isinstance(e, ast.UnaryOp) and isinstance(e.op, ast.Not):
        inner = e.operand
        if isinstance(inner, (ast.Compare, ast.BoolOp)) or (isinstance(inner, ast.UnaryOp) and isinstance(inner.op, ast.Not)):
            ng = negate(inner)
            if not (isinstance(ng, ast.UnaryOp) and isinstance(ng.op, ast.Not)):
                return _key(ng)
        return "not " + _key(inner)
    if isinstance(e, ast.BoolOp):
        parts = []
        for v in e.values:
            k = _key(v)
            # flatten nested same-op
            if isinstance(split_chain(v), ast.BoolOp) and type(split_chain(v).op) is type(e.op):
                parts += [_key(x) for x in split_chain(v).values]
            else:
                parts.append(k)
        return "(" + (" and " if isinstance(e.op, ast.And) else " or ").join(sorted(parts)) + ")"
    if isinstance(e, ast.Compare) and len(e.ops) == 1 and isinstance(e.ops[0], (ast.Eq, ast.NotEq)) and isinstance(e.comparators[0], ast.Constant) \
            and e.comparators[0].value == 0 and type(e.comparators[0].value) is int and ((isinstance(e.left, ast.BinOp) \
            and isinstance(e.left.op, (ast.Mod, ast.BitAnd, ast.BitOr, ast.BitXor, ast.LShift, ast.RShift, ast.FloorDiv))) or isinstance(e.left, (ast.Name, ast.Attribute))):
        # for the integers these operators yield, `x != 0` is the truth of x and `x == 0` its negation; a plain name compared with
        # the integer 0 is taken for a number as well (the key only decides whether the reference's spelling of the same test is
        # adopted)
        return _key(e.left) if isinstance(e.ops[0], ast.NotEq) else "not " + _key(e.left)
    if isinstance(e, ast.Compare) and len(e.ops) == 1:
        l, r, op = _u(e.left), _u(e.comparators[0]), type(e.ops[0])
        if op in _MIRROR and (op in (ast.Gt, ast.GtE) or (op in (ast.Eq, ast.NotEq) and l > r)):
            l, r, op = r, l, _MIRROR[op]
        return f"{l} {op.__name__} {r}"
    if isinstance(e, ast.Call) and _u(e.func) == "bool" and len(e.args) == 1 and not e.keywords:
        return _key(e.args[0])
    return _u(e)


def test_keys_of(fn: ast.FunctionDef) -> List[str]:
    out = []
    for n in ast.walk(fn):
        if isinstance(n, (ast.If, ast.While)):
            out.append(_key(n.test))
        elif isinstance(n, ast.IfExp):
            out.append(_key(n.test))
    return out


def test_forms_of(fn: ast.FunctionDef) -> Dict[str, str]:
    """key of an if test -> 'guard' (no else, body always exits) | 'else' | 'plain' (first occurrence wins)."""
    out: Dict[str, str] = {}
    for n in ast.walk(fn):
        if isinstance(n, ast.If):
            form = "else" if n.orelse else ("guard" if always_exits(n.body) else "plain")
            out.setdefault(_key(n.test), form)
    return out


# ----------------------------------------------------------------------------------------------- fresh constants
def inline_fresh_structs(tree: ast.Module, ref_mod: dict) -> None:
    """NAME = struct.Struct(<literal format>) at module or class level, unknown to the reference: NAME.pack(...) ->
    struct.pack(fmt, ...), likewise unpack/unpack_from/pack_into/iter_unpack, NAME.size -> struct.calcsize(fmt)."""
    known = set(ref_mod.get("consts", []))
    known_cls = ref_mod.get("class_consts", {})
    fresh = {}
    containers = [(tree, known, None)] + [(c, set(known_cls.get(c.name, [])), c.name) for c in tree.body if isinstance(c, ast.ClassDef)]
    for owner, kn, cname in containers:
        for st in owner.body:
            tgt = val = None
            if isinstance(st, ast.Assign) and len(st.targets) == 1 and isinstance(st.targets[0], ast.Name):
                tgt, val = st.targets[0].id, st.value
            elif isinstance(st, ast.AnnAssign) and isinstance(st.target, ast.Name) and st.value is not None:
                tgt, val = st.target.id, st.value
            if tgt and tgt not in kn and isinstance(val, ast.Call) and _u(val.func) in ("struct.Struct", "Struct") and len(val.args) == 1 and not val.keywords \
                    and isinstance(val.args[0], ast.Constant) and isinstance(val.args[0].value, str):
                fresh[(cname, tgt)] = (val.args[0], st, owner)
    if not fresh:
        return
    names = {}
    for (cname, tgt), v in fresh.items():
        names.setdefault(tgt, []).append((cname, v))
    # only names whose every use is NAME.<method>(...) / NAME.size / NAME.format can go
    removable = set(fresh)

    class _R(ast.NodeTransformer):
        def __init__(self):
            self.cls = None

        def visit_ClassDef(self, node):
            prev, self.cls = self.cls, node.name
            self.generic_visit(node)
            self.cls = prev
            return node

        def _which(self, base):
            if isinstance(base, ast.Name) and (None, base.id) in fresh:
                return (None, base.id)
            if isinstance(base, ast.Attribute) and isinstance(base.value, ast.Name):
                if base.value.id == "self" and (self.cls, base.attr) in fresh:
                    return (self.cls, base.attr)
                if (base.value.id, base.attr) in fresh:
                    return (base.value.id, base.attr)
            return None

        def visit_Call(self, node):
            f = node.func
            if isinstance(f, ast.Attribute) and f.attr in ("pack", "unpack", "unpack_from", "pack_into", "iter_unpack"):
                k = self._which(f.value)
                if k is not None:
                    node.args = [self.visit(a) for a in node.args]
                    node.keywords = [ast.keyword(arg=kw.arg, value=self.visit(kw.value)) for kw in node.keywords]
                    new = ast.Call(func=ast.Attribute(value=ast.Name(id="struct", ctx=ast.Load()), attr=f.attr, ctx=ast.Load()),
                                   args=[copy.deepcopy(fresh[k][0])] + node.args, keywords=node.keywords)
                    return ast.copy_location(new, node)
            return self.generic_visit(node)

        def visit_Attribute(self, node):
            if isinstance(node.ctx, ast.Load) and node.attr in ("size", "format"):
                k = self._which(node.value)
                if k is not None:
                    if node.attr == "format":
                        return ast.copy_location(copy.deepcopy(fresh[k][0]), node)
                    return ast.copy_location(ast.Call(func=ast.Attribute(value=ast.Name(id="struct", ctx=ast.Load()), attr="calcsize", ctx=ast.Load()),
                                                      args=[copy.deepcopy(fresh[k][0])], keywords=[]), node)
            return self.generic_visit(node)
    has_struct = any(isinstance(n, ast.Import) and any(a.name == "struct" and a.asname is None for a in n.names) for n in tree.body) \
        or any(isinstance(n, ast.Attribute) and isinstance(n.value, ast.Name) and n.value.id == "struct" for n in ast.walk(tree))
    if not has_struct:
        return
    _R().visit(tree)
    # definitions that are no longer referenced disappear
    for (cname, tgt), (_fmt, st, owner) in fresh.items():
        still = any((isinstance(x, ast.Name) and x.id == tgt and isinstance(x.ctx, ast.Load)) or (isinstance(x, ast.Attribute) and x.attr == tgt and isinstance(x.ctx, ast.Load)) for x in ast.walk(tree))
        if not still:
            owner.body = [x for x in owner.body if x is not st] or [ast.Pass()]
    ast.fix_missing_locations(tree)


def inline_fresh_regexes(tree: ast.Module, ref_mod: dict) -> None:
    """NAME = re.compile(<literal pattern>) at module level, unknown to the reference: NAME.sub(r, s) -> re.sub(P, r, s), likewise
    match/search/fullmatch/findall/split with the pattern as first argument; the definition goes when nothing else uses it."""
    known = set(ref_mod.get("consts", []))
    fresh = {}
    for st in tree.body:
        if isinstance(st, ast.Assign) and len(st.targets) == 1 and isinstance(st.targets[0], ast.Name) and st.targets[0].id not in known \
                and isinstance(st.value, ast.Call) and _u(st.value.func) == "re.compile" and len(st.value.args) == 1 and not st.value.keywords \
                and isinstance(st.value.args[0], ast.Constant) and isinstance(st.value.args[0].value, str):
            fresh[st.targets[0].id] = (st.value.args[0], st)
    if not fresh:
        return
    stores = {}
    for n in ast.walk(tree):
        if isinstance(n, ast.Name) and isinstance(n.ctx, (ast.Store, ast.Del)):
            stores[n.id] = stores.get(n.id, 0) + 1
    fresh = {k: v for k, v in fresh.items() if stores.get(k, 0) == 1}

    class _R(ast.NodeTransformer):
        def visit_Call(self, node):
            self.generic_visit(node)
            f = node.func
            if isinstance(f, ast.Attribute) and isinstance(f.value, ast.Name) and f.value.id in fresh and f.attr in ("sub", "subn", "match", "search", "fullmatch", "findall", "split", "finditer"):
                return ast.copy_location(ast.Call(func=ast.Attribute(value=ast.Name(id="re", ctx=ast.Load()), attr=f.attr, ctx=ast.Load()),
                                                  args=[copy.deepcopy(fresh[f.value.id][0])] + node.args, keywords=node.keywords), node)
            return node
    _R().visit(tree)
    for name, (_p, st) in fresh.items():
        if not any(isinstance(x, ast.Name) and x.id == name and isinstance(x.ctx, ast.Load) for x in ast.walk(tree)):
            tree.body = [x for x in tree.body if x is not st]
    ast.fix_missing_locations(tree)


def _is_module_function_ref(tree: ast.Module, val: ast.expr) -> bool:
    """`binascii.crc_hqx`, `struct.pack`: an attribute of a module this file imports with `import <mod>` (a function bound once at
    import time under a local name: the same object at every use)."""
    if not (isinstance(val, ast.Attribute) and isinstance(val.value, ast.Name)):
        return False
    imported = {a.asname or a.name for st in tree.body if isinstance(st, ast.Import) for a in st.names}
    return val.value.id in imported


def inline_fresh_constants(tree: ast.Module, ref_mod: dict) -> None:
    known = set(ref_mod.get("consts", []))
    known_cls = ref_mod.get("class_consts", {})
    fresh: Dict[str, ast.expr] = {}
    stores: Dict[str, int] = {}
    for n in ast.walk(tree):
        if isinstance(n, ast.Name) and isinstance(n.ctx, (ast.Store, ast.Del)):
            stores[n.id] = stores.get(n.id, 0) + 1
    for st in tree.body:
        tgt = val = None
        if isinstance(st, ast.Assign) and len(st.targets) == 1 and isinstance(st.targets[0], ast.Name):
            tgt, val = st.targets[0].id, st.value
        elif isinstance(st, ast.AnnAssign) and isinstance(st.target, ast.Name) and st.value is not None:
            tgt, val = st.target.id, st.value
        if tgt and tgt not in known and stores.get(tgt, 0) == 1 and (_is_literal(val) or _is_module_function_ref(tree, val)):
            fresh[tgt] = val
    fresh_cls: Dict[str, Dict[str, ast.expr]] = {}
    for c in [n for n in tree.body if isinstance(n, ast.ClassDef)]:
        kc = set(known_cls.get(c.name, []))
        for st in c.body:
            tgt = val = None
            if isinstance(st, ast.Assign) and len(st.targets) == 1 and isinstance(st.targets[0], ast.Name):
                tgt, val = st.targets[0].id, st.value
            elif isinstance(st, ast.AnnAssign) and isinstance(st.target, ast.Name) and st.value is not None:
                tgt, val = st.target.id, st.value
            if tgt and tgt not in kc and _is_literal(val):
                # never written through an instance or the class anywhere in the module
                written = any(isinstance(x, ast.Attribute) and x.attr == tgt and isinstance(x.ctx, (ast.Store, ast.Del)) for x in ast.walk(tree))
                if not written:
                    fresh_cls.setdefault(c.name, {})[tgt] = val
    if not fresh and not fresh_cls:
        return

    class _R(ast.NodeTransformer):
        def __init__(self):
            self.cls = None

        def visit_ClassDef(self, node):
            prev, self.cls = self.cls, node.name
            self.generic_visit(node)
            self.cls = prev
            # in the class body itself (not in the methods) a class-level constant is a bare name
            fc = fresh_cls.get(node.name, {})
            if fc:
                class _B(ast.NodeTransformer):
                    def visit_FunctionDef(self, n):
                        return n

                    def visit_Lambda(self, n):
                        return n

                    def visit_Name(self, n):
                        if isinstance(n.ctx, ast.Load) and n.id in fc:
                            return ast.copy_location(copy.deepcopy(fc[n.id]), n)
                        return n
                node.body = [_B().visit(st) if not isinstance(st, ast.FunctionDef) else st for st in node.body]
            return node

        def visit_Name(self, node):
            if isinstance(node.ctx, ast.Load) and node.id in fresh:
                return ast.copy_location(copy.deepcopy(fresh[node.id]), node)
            return node

        def visit_Attribute(self, node):
            self.generic_visit(node)
            if isinstance(node.ctx, ast.Load) and isinstance(node.value, ast.Name):
                if node.value.id == "self" and self.cls and node.attr in fresh_cls.get(self.cls, {}):
                    return ast.copy_location(copy.deepcopy(fresh_cls[self.cls][node.attr]), node)
                if node.value.id in fresh_cls and node.attr in fresh_cls[node.value.id]:
                    return ast.copy_location(copy.deepcopy(fresh_cls[node.value.id][node.attr]), node)
            return node
    # locals/params shadowing a fresh module constant: skip functions that bind the name
    shadowed = set()
    for f in [n for n in ast.walk(tree) if isinstance(n, (ast.FunctionDef, ast.Lambda))]:
        a = f.args
        for p in a.posonlyargs + a.args + a.kwonlyargs:
            if p.arg in fresh:
                shadowed.add(p.arg)
    for s in shadowed:
        fresh.pop(s, None)
    _R().visit(tree)
    # drop the now unused definitions so that rules enumerating constants do not see them
    tree.body = [st for st in tree.body if not ((isinstance(st, ast.Assign) and len(st.targets) == 1 and isinstance(st.targets[0], ast.Name) and st.targets[0].id in fresh)
                                                 or (isinstance(st, ast.AnnAssign) and isinstance(st.target, ast.Name) and st.target.id in fresh))]
    for c in [n for n in tree.body if isinstance(n, ast.ClassDef)]:
        fc = fresh_cls.get(c.name, {})
        if fc:
            c.body = [st for st in c.body if not ((isinstance(st, ast.Assign) and len(st.targets) == 1 and isinstance(st.targets[0], ast.Name) and st.targets[0].id in fc)
                                                   or (isinstance(st, ast.AnnAssign) and isinstance(st.target, ast.Name) and st.target.id in fc))] or [ast.Pass()]


# ----------------------------------------------------------------------------------------------- fresh helpers
def _params(fn: ast.FunctionDef) -> Optional[List[str]]:
    a = fn.args
    if a.vararg or a.kwarg or a.kwonlyargs or a.posonlyargs or a.kw_defaults or any(not _is_literal(d) for d in a.defaults):
        return None
    return [x.arg for x in a.args]


def _assigned_names(node: ast.AST) -> Set[str]:
    out = set()
    for n in ast.walk(node):
        if isinstance(n, ast.Name) and isinstance(n.ctx, (ast.Store, ast.Del)):
            out.add(n.id)
        elif isinstance(n, ast.ExceptHandler) and n.name:
            out.add(n.name)
        elif isinstance(n, ast.arg):
            out.add(n.arg)
    return out


def _simple_arg(e: ast.expr) -> bool:
    return isinstance(e, (ast.Name, ast.Constant)) or (isinstance(e, ast.Attribute) and _simple_arg(e.value))


class _Subst(ast.NodeTransformer):
    def __init__(self, mapping: Dict[str, ast.expr]):
        self.m = mapping

    def visit_Name(self, node):
        if node.id in self.m and isinstance(node.ctx, ast.Load):
            return ast.copy_location(copy.deepcopy(self.m[node.id]), node)
        return node


def _strip_doc(body: List[ast.stmt]) -> List[ast.stmt]:
    if body and isinstance(body[0], ast.Expr) and isinstance(body[0].value, ast.Constant) and isinstance(body[0].value.value, str):
        return body[1:]
    return body


def inline_fresh_helpers(tree: ast.Module, ref_mod: dict, protect_renames: bool = False) -> None:
    ref_funcs = set(ref_mod.get("funcs", {}))
    # fresh methods that may be renamed reference methods (same parameter list as a reference method the class has lost) are left
    # alone on the first sweep: once the helpers *they* use are inlined, the rename pass can recognise them by their bodies
    protected = set()
    if protect_renames:
        for c_ in [n for n in tree.body if isinstance(n, ast.ClassDef)]:
            cur_m = {n.name: n for n in c_.body if isinstance(n, ast.FunctionDef)}
            lost = [q.split(".", 1)[1] for q in ref_funcs if q.startswith(c_.name + ".") and q.count(".") == 1 and q.split(".", 1)[1] not in cur_m]
            for nm_, node_ in cur_m.items():
                if f"{c_.name}.{nm_}" in ref_funcs:
                    continue
                pl = [a.arg for a in node_.args.posonlyargs + node_.args.args + node_.args.kwonlyargs]
                if any(len(ref_mod["funcs"].get(f"{c_.name}.{l_}", {}).get("params", [])) == len(pl) for l_ in lost):
                    protected.add((c_.name, nm_))
    for _round in range(4):
        changed = False
        # collect candidates: qualname -> (FunctionDef, owner container (Module/ClassDef), kind)
        cands = {}
        for st in tree.body:
            if isinstance(st, ast.FunctionDef) and st.name not in ref_funcs:
                cands[("", st.name)] = (st, tree, "function")
            if isinstance(st, ast.ClassDef):
                for m in st.body:
                    if isinstance(m, ast.FunctionDef) and f"{st.name}.{m.name}" not in ref_funcs:
                        deco = [_u(d) for d in m.decorator_list]
                        if deco in ([], ["staticmethod"]):
                            cands[(st.name, m.name)] = (m, st, "static" if deco else "method")
                        elif deco == ["property"] and not any(isinstance(x, ast.FunctionDef) and x.name == m.name and x is not m for x in st.body):
                            # a fresh read-only property (private or a new public query the old code is routed through) that is one
                            # expression: inside the class every `self.<name>` is that expression; the definition goes when nothing else
                            # in the module mentions the name
                            pb = _strip_doc(m.body)
                            uses_ = [x for x in ast.walk(tree) if isinstance(x, ast.Attribute) and x.attr == m.name]
                            inside = {id(x) for f_ in st.body if isinstance(f_, ast.FunctionDef) and f_ is not m for x in ast.walk(f_)}
                            mine_ = [x for x in uses_ if isinstance(x.ctx, ast.Load) and isinstance(x.value, ast.Name) and x.value.id == "self" and id(x) in inside]
                            stores_ = [x for x in uses_ if not isinstance(x.ctx, ast.Load)]
                            if len(pb) == 1 and isinstance(pb[0], ast.Return) and pb[0].value is not None and mine_ and not stores_ \
                                    and not any(isinstance(x, (ast.Lambda, ast.Yield, ast.Await, ast.NamedExpr)) for x in ast.walk(pb[0])):
                                for x in mine_:
                                    _replace_node(tree, x, copy.deepcopy(pb[0].value))
                                if len(mine_) == len(uses_):
                                    st.body = [x for x in st.body if x is not m] or [ast.Pass()]
                                changed = True
        for (cname, hname), (h, owner, kind) in list(cands.items()):
            if hname.startswith("__") and hname.endswith("__"):
                continue
            if (cname, hname) in protected:
                continue
            ps = _params(h)
            if ps is None:
                continue
            if any(isinstance(x, (ast.FunctionDef, ast.Lambda, ast.Yield, ast.YieldFrom, ast.Await, ast.Global, ast.Nonlocal)) and x is not h for x in ast.walk(h)):
                continue
            body = _strip_doc(h.body)
            if not body:
                continue
            if kind == "method":
                if not ps or ps[0] != "self":
                    continue
                ps = ps[1:]
            mangled = f"_{cname}{hname}" if cname and hname.startswith("__") and not hname.endswith("__") else None

            def is_call(c, inside_cls):
                if not isinstance(c, ast.Call) or c.keywords and any(k.arg is None for k in c.keywords):
                    return False
                f = c.func
                if kind == "function":
                    return isinstance(f, ast.Name) and f.id == hname
                if isinstance(f, ast.Attribute) and f.attr in (hname, mangled) and isinstance(f.value, ast.Name):
                    if f.value.id == "self" and inside_cls == cname:
                        return True
                    if f.value.id in (cname, "cls") and kind == "static" and (f.value.id == cname or inside_cls == cname):
                        return True
                return False
            # all call sites
            sites = []
            enclosing: Dict[int, ast.FunctionDef] = {}
            for c2 in [tree] + [n for n in tree.body if isinstance(n, ast.ClassDef)]:
                for fn in [n for n in c2.body if isinstance(n, ast.FunctionDef)]:
                    if fn is h:
                        continue
                    icls = c2.name if isinstance(c2, ast.ClassDef) else ""

                    def _sites_in(f_, outer_):
                        # a call inside a nested function is expanded there: its statements belong to the innermost function
                        if outer_ is not None:
                            enclosing[id(f_)] = outer_
                        stack = list(ast.iter_child_nodes(f_))
                        while stack:
                            x = stack.pop()
                            if isinstance(x, ast.FunctionDef):
                                _sites_in(x, f_)
                                continue
                            if is_call(x, icls):
                                sites.append((f_, x))
                            stack.extend(ast.iter_child_nodes(x))
                    _sites_in(fn, None)
            other_refs = [x for x in ast.walk(tree) if isinstance(x, ast.Attribute) and x.attr in (hname, mangled) and not any(x is s[1].func for s in sites)] if kind != "function" else \
                [x for x in ast.walk(tree) if isinstance(x, ast.Name) and x.id == hname and isinstance(x.ctx, ast.Load) and not any(x is s[1].func for s in sites)]
            if not sites or other_refs:
                continue
            recursive = any(is_call(x, cname) for x in ast.walk(h))
            if recursive:
                continue
            hlocals = _assigned_names(h) - set(_params(h) or [])
            ok_all = True
            plans = []
            for fn, call in sites:
                # bind arguments
                amap = {}
                args = list(call.args)
                star_pre = None
                if args and isinstance(args[-1], ast.Starred) and not call.keywords and not any(isinstance(a, ast.Starred) for a in args[:-1]) and len(args) - 1 < len(ps):
                    # f(a, *E): E is unpacked into the remaining parameters first (`p2, p3 = E`), the call gets plain names
                    rest_ps = ps[len(args) - 1:]
                    cn = _assigned_names(fn) | {x.id for x in ast.walk(fn) if isinstance(x, ast.Name)}
                    if not any(rp in cn for rp in rest_ps) and len(rest_ps) >= 1:
                        tgt_ = ast.Tuple(elts=[ast.Name(id=rp, ctx=ast.Store()) for rp in rest_ps], ctx=ast.Store())
                        star_pre = ast.Assign(targets=[tgt_], value=args[-1].value)
                        args = args[:-1] + [ast.Name(id=rp, ctx=ast.Load()) for rp in rest_ps]
                if len(args) + len(call.keywords) > len(ps) or any(isinstance(a, ast.Starred) for a in args):
                    ok_all = False
                    break
                for p, a in zip(ps, args):
                    amap[p] = a
                for k in call.keywords:
                    if k.arg not in ps or k.arg in amap:
                        ok_all = False
                        break
                    amap[k.arg] = k.value
                # parameters left out take their (literal) default
                dflt = dict(zip([a.arg for a in (h.args.posonlyargs + h.args.args)][-len(h.args.defaults):] if h.args.defaults else [], h.args.defaults))
                for kw, dv in zip(h.args.kwonlyargs, h.args.kw_defaults):
                    if dv is not None:
                        dflt[kw.arg] = dv
                for p in ps:
                    if p not in amap and p in dflt and _is_literal(dflt[p]):
                        amap[p] = copy.deepcopy(dflt[p])
                if not ok_all or set(amap) != set(ps):
                    ok_all = False
                    break
                plans.append((fn, call, amap, star_pre))
            if not ok_all:
                continue
            # expression helper: single `return <expr>`
            expr_helper = len(body) == 1 and isinstance(body[0], ast.Return) and body[0].value is not None
            done_sites = 0
            site_no: Dict[int, int] = {}
            for fn, call, amap, star_pre in plans:
                if star_pre is not None:
                    # put the unpacking in front of the statement that holds the call (the starred value is evaluated there first
                    # in both forms when nothing that calls precedes it in the statement: required below)
                    host = _nested_site(fn, call, [ast.Return(value=ast.Constant(value=None))]) or _stmt_of(fn, call)
                    if host is None:
                        continue
                    hblk, hidx, _hst = host
                    hblk.insert(hidx, ast.copy_location(star_pre, _hst))
                    call.args = [a for a in call.args[:-1]] + [ast.Name(id=e.id, ctx=ast.Load()) for e in star_pre.targets[0].elts]
                    ast.fix_missing_locations(fn)
                caller_names = _assigned_names(fn)
                if id(fn) in enclosing:
                    # a nested function also sees the names of the functions around it: none of them may be captured
                    o_ = fn
                    while id(o_) in enclosing:
                        o_ = enclosing[id(o_)]
                        caller_names |= _assigned_names(o_)
                    caller_names |= {x.id for x in ast.walk(fn) if isinstance(x, ast.Name)}
                site_no[id(fn)] = site_no.get(id(fn), 0) + 1
                nth = site_no[id(fn)]
                uses = {p: sum(1 for x in ast.walk(h) if isinstance(x, ast.Name) and x.id == p and isinstance(x.ctx, ast.Load)) for p in ps}
                reassigned = {p for p in ps if any(isinstance(x, ast.Name) and x.id == p and isinstance(x.ctx, ast.Store) for x in ast.walk(h))}
                pre = []
                sub = {}
                ren = {}
                bad = False
                loc0 = _stmt_of(fn, call)
                for p in ps:
                    a = amap[p]
                    if p in reassigned:
                        # in-place update `x = h(x, ...)`: the parameter is the caller's variable under another name
                        if isinstance(a, ast.Name) and loc0 is not None and isinstance(loc0[2], ast.Assign) and len(loc0[2].targets) == 1 \
                                and isinstance(loc0[2].targets[0], ast.Name) and loc0[2].targets[0].id == a.id and a.id not in (_assigned_names(h) - {p}):
                            ren[p] = a.id
                            continue
                        # the helper re-binds its parameter: that is the helper's own variable, never the caller's (also when
                        # the caller's variable has the same name) -- unless the caller never reads its variable again (then
                        # nobody can tell), it becomes a local copy of the argument
                        if isinstance(a, ast.Name) and _dead_after(fn, call, a.id):
                            if a.id != p:
                                ren[p] = a.id
                            continue
                        pname = f"{p}__{nth}"
                        if pname in caller_names:
                            bad = True
                            break
                        ren[p] = pname
                        pre.append(ast.Assign(targets=[ast.Name(id=pname, ctx=ast.Store())], value=copy.deepcopy(a)))
                        continue
                    # an argument is evaluated at the call: only what cannot change inside the helper may be put where the
                    # parameter is read (a name the helper does not assign, a literal, or anything when the helper is a single
                    # expression); everything else is bound to a local first and left to the temp inliner
                    stable = isinstance(a, ast.Constant) or (isinstance(a, ast.Name) and a.id not in (hlocals | reassigned)) \
                        or (_simple_arg(a) and not any(isinstance(x, ast.Attribute) and isinstance(x.ctx, (ast.Store, ast.Del)) for x in ast.walk(h))
                            and not any(isinstance(x, ast.Call) for s_ in body[:-1] for x in ast.walk(s_)))
                    if stable or (len(body) == 1 and isinstance(body[0], ast.Return) and uses[p] <= 1):
                        sub[p] = a
                    else:
                        pname = p
                        if p in caller_names and not (isinstance(a, ast.Name) and a.id == p):
                            pname = f"{p}__{nth}"
                            if pname in caller_names:
                                bad = True
                                break
                            ren[p] = pname
                        pre.append(ast.Assign(targets=[ast.Name(id=pname, ctx=ast.Store())], value=copy.deepcopy(a)))
                if bad:
                    continue
                if expr_helper:
                    if pre:
                        continue
                    new = _Subst(sub).visit(copy.deepcopy(body[0].value))
                    if _replace_node(fn, call, new):
                        done_sites += 1
                        changed = True
                    continue
                # statement helper: locate the statement holding the call
                loc = _stmt_of(fn, call)
                if loc is None:
                    loc = _nested_site(fn, call, body)
                    if loc is None:
                        continue
                    nested = True
                else:
                    nested = False
                blk, idx, st = loc
                # locals of the helper must not clobber live names of the caller
                targets = set()
                if isinstance(st, ast.Assign) and st.value is call:
                    targets = _assigned_names(st)
                hb = [_Subst(sub).visit(copy.deepcopy(s)) for s in body]
                if ren:
                    for s_ in hb:
                        for x in ast.walk(s_):
                            if isinstance(x, ast.Name) and x.id in ren:
                                x.id = ren[x.id]
                # locals of the helper: a further expansion in the same caller gets its own copies of them
                mine = hlocals - set(ren)
                if nth > 1 or (mine & caller_names) - targets:
                    suffix = f"__{nth}"
                    if any((nm + suffix) in caller_names for nm in mine):
                        continue
                    for s_ in hb:
                        for x in ast.walk(s_):
                            if isinstance(x, ast.Name) and x.id in mine and x.id not in {_u(t) for t in (st.targets if isinstance(st, ast.Assign) else [])}:
                                x.id = x.id + suffix
                            elif isinstance(x, ast.ExceptHandler) and x.name in mine:
                                x.name = x.name + suffix
                rets = [x for s in hb for x in ast.walk(s) if isinstance(x, ast.Return)]
                new_stmts = None
                if nested:
                    # straight-line helper used inside a larger expression: its statements go in front of the statement, the
                    # call becomes the returned expression (nothing that calls is evaluated before it there)
                    if len(rets) == 1 and hb[-1] is rets[0] and rets[0].value is not None:
                        for s_ in pre + hb[:-1]:
                            ast.copy_location(s_, st)
                        if _replace_node(st, call, rets[0].value):
                            blk[idx:idx] = pre + hb[:-1]
                            done_sites += 1
                            changed = True
                    continue
                if isinstance(st, ast.Return) and st.value is call:
                    new_stmts = pre + hb                    # tail position: the helper's returns are the caller's
                    if not always_exits(hb):
                        new_stmts.append(ast.Return(value=None))
                elif isinstance(st, ast.Expr) and st.value is call:
                    if not rets:
                        new_stmts = pre + hb
                    elif len(rets) == 1 and hb[-1] is rets[0]:
                        new_stmts = pre + hb[:-1] + ([ast.Expr(value=rets[0].value)] if rets[0].value is not None and not _simple_arg(rets[0].value) else [])
                    elif all(r.value is None or _simple_arg(r.value) for r in rets):
                        # the value the helper reports is not used here: its returns are plain exits
                        for r in rets:
                            r.value = None
                        conv = _guard_to_nested(hb)
                        if conv is not None:
                            new_stmts = pre + conv
                elif isinstance(st, ast.Assign) and st.value is call and rets and all(r.value is not None for r in rets):
                    conv = _returns_to_assign(hb, st.targets)
                    if conv is not None:
                        new_stmts = pre + conv
                    else:
                        # "return through": `x = h(...)` directly followed by `if x is not None: return F(x)` where every return of
                        # h is either a closing `return None` or `return r` under the condition `r is not None`: h's statements
                        # go in place with `return F(r)` for `return r`; x must not be read afterwards
                        nxt = blk[idx + 1] if idx + 1 < len(blk) else None
                        tgt = st.targets[0] if len(st.targets) == 1 and isinstance(st.targets[0], ast.Name) else None
                        if tgt is not None and isinstance(nxt, ast.If) and not nxt.orelse and _u(nxt.test) == f"{tgt.id} is not None" and len(nxt.body) == 1 \
                                and isinstance(nxt.body[0], ast.Return) and nxt.body[0].value is not None \
                                and isinstance(hb[-1], ast.Return) and isinstance(hb[-1].value, ast.Constant) and hb[-1].value.value is None \
                                and not any(isinstance(x, ast.Name) and x.id == tgt.id for later in blk[idx + 2:] for x in ast.walk(later)):
                            inner = [r for r in rets if r is not hb[-1]]
                            ok_rt = bool(inner) and all(isinstance(r.value, ast.Name) for r in inner)
                            if ok_rt:
                                # each inner return must sit directly in `if r is not None:`
                                for r in inner:
                                    par = [x for s_ in hb for x in ast.walk(s_) if isinstance(x, ast.If) and any(y is r for y in x.body)]
                                    if not (par and _u(par[0].test) == f"{r.value.id} is not None" and not par[0].orelse):
                                        ok_rt = False
                            if ok_rt:
                                for r in inner:
                                    newv = copy.deepcopy(nxt.body[0].value)
                                    for parent in ast.walk(newv):
                                        for fld, val in ast.iter_fields(parent):
                                            if isinstance(val, ast.Name) and val.id == tgt.id:
                                                setattr(parent, fld, ast.Name(id=r.value.id, ctx=ast.Load()))
                                            elif isinstance(val, list):
                                                for k_, v_ in enumerate(val):
                                                    if isinstance(v_, ast.Name) and v_.id == tgt.id:
                                                        val[k_] = ast.Name(id=r.value.id, ctx=ast.Load())
                                    if isinstance(newv, ast.Name) and newv.id == tgt.id:
                                        newv = ast.Name(id=r.value.id, ctx=ast.Load())
                                    r.value = newv
                                new_stmts = pre + hb[:-1]
                                del blk[idx + 1]
                if new_stmts is None:
                    continue
                for s_ in new_stmts:
                    ast.copy_location(s_, st)
                blk[idx:idx + 1] = new_stmts or [ast.Pass()]
                done_sites += 1
                changed = True
            if done_sites == len(plans):
                owner.body = [x for x in owner.body if x is not h] or [ast.Pass()]
        if not changed:
            break
    ast.fix_missing_locations(tree)


def flatten_reraising_try(fn: ast.FunctionDef, ref_fn: Optional[dict]) -> bool:
    """`try: BODY except E [as e]: raise E(<another message>) [from ...]` where the reference function has no handler for E: the
    same exception type leaves the function in the same situations, only its text differs -- the block is replaced by BODY."""
    ref_src = (ref_fn or {}).get("src", "")
    changed = False
    for owner, fld, blk in blocks_of(fn):
        i = 0
        while i < len(blk):
            st = blk[i]
            if isinstance(st, ast.Try) and not st.orelse and not st.finalbody and st.handlers:
                ok = True
                for h in st.handlers:
                    types = [dotted_name(t) for t in (h.type.elts if isinstance(h.type, ast.Tuple) else [h.type])] if h.type is not None else []
                    body = [b for b in h.body if not (isinstance(b, ast.Expr) and isinstance(b.value, ast.Call) and dotted_name(b.value.func).split(".")[0] in ("logger", "log", "logging"))]
                    if not types or len(types) != 1 or len(body) != 1 or not isinstance(body[0], ast.Raise) or body[0].exc is None:
                        ok = False
                        break
                    exc = body[0].exc
                    raised = dotted_name(exc.func) if isinstance(exc, ast.Call) else dotted_name(exc)
                    if raised != types[0] or f"except {types[0]}" in ref_src:
                        ok = False
                        break
                if ok:
                    blk[i:i + 1] = st.body
                    changed = True
                    continue
            i += 1
    return changed


def flatten_fresh_locks(tree: ast.Module, ref_mod: dict) -> bool:
    """`self.<x> = threading.Lock()` / `RLock()` for an attribute the reference module does not mention, and `with <obj>.<x>:` around
    statements: mutual exclusion changes no sequential behaviour, so the block is replaced by its body and the lock's creation is
    dropped.  (What a lock can break -- a wait or a callback while it is held, a lock that is not re-entrant taken twice -- is the
    business of the shared lock clause in rules/shared.py, which looks at the tree before this pass.)"""
    import re as _re
    ref_attrs = set()
    for f_ in ref_mod.get("funcs", {}).values():
        ref_attrs |= set(_re.findall(r"\.([A-Za-z_][A-Za-z_0-9]*)", f_.get("src", "")))
    locks = set()
    for n in ast.walk(tree):
        if isinstance(n, ast.Assign) and len(n.targets) == 1 and isinstance(n.targets[0], ast.Attribute) and isinstance(n.value, ast.Call) \
                and dotted_name(n.value.func) in ("threading.Lock", "threading.RLock", "Lock", "RLock") and not n.value.args and n.targets[0].attr not in ref_attrs:
            locks.add(n.targets[0].attr)
    if not locks:
        return False
    changed = False
    for owner in [x for x in ast.walk(tree) if hasattr(x, "body") and isinstance(getattr(x, "body"), list)]:
        for fld in ("body", "orelse", "finalbody"):
            blk = getattr(owner, fld, None)
            if not isinstance(blk, list):
                continue
            i = 0
            while i < len(blk):
                st = blk[i]
                if isinstance(st, ast.With) and len(st.items) == 1 and st.items[0].optional_vars is None and isinstance(st.items[0].context_expr, ast.Attribute) \
                        and st.items[0].context_expr.attr in locks:
                    blk[i:i + 1] = st.body
                    changed = True
                    continue
                if isinstance(st, ast.Assign) and len(st.targets) == 1 and isinstance(st.targets[0], ast.Attribute) and st.targets[0].attr in locks \
                        and isinstance(st.value, ast.Call) and dotted_name(st.value.func) in ("threading.Lock", "threading.RLock", "Lock", "RLock"):
                    del blk[i]
                    changed = True
                    continue
                i += 1
            if not blk and fld == "body":
                blk.append(ast.Pass())
    for h in [x for x in ast.walk(tree) if isinstance(x, ast.ExceptHandler)]:
        pass
    return changed


_WIDENING_TYPES = {"memoryview", "list", "tuple", "os.PathLike", "PathLike", "pathlib.Path", "Path", "pathlib.PurePath", "PurePath", "array.array", "array"}


def drop_fresh_widening_guards(tree: ast.Module, ref_mod: dict) -> bool:
    """`if isinstance(p, T): p = conv(p)` at the head of a function (or `if isinstance(p, T): return conv(p)` directly before `return
    p` in a fresh helper), for a parameter p, with T among the exotic buffer/path types {memoryview, list, tuple, os.PathLike,
    pathlib.Path, array.array} and conv a content-preserving conversion {bytes, bytearray, p.tobytes(), os.fspath, str, list,
    tuple}, where the reference function has no such test: a commit that lets the function accept one more kind of argument.
    Every argument that is not of type T takes exactly the old path; what a caller gets who passes the new kind is outside the
    properties (they are stated for the interface of the pinned tree).  The guard is removed from the canonical form."""
    ref_funcs = ref_mod.get("funcs", {})
    changed = False

    def conv_of(e, p):
        if isinstance(e, ast.Call) and not e.keywords:
            nm = dotted_name(e.func)
            if nm in ("bytes", "bytearray", "os.fspath", "fspath", "str", "list", "tuple") and len(e.args) == 1 and isinstance(e.args[0], ast.Name) and e.args[0].id == p:
                return True
            if isinstance(e.func, ast.Attribute) and e.func.attr == "tobytes" and isinstance(e.func.value, ast.Name) and e.func.value.id == p and not e.args:
                return True
        return False

    def guard(st, params):
        if not (isinstance(st, ast.If) and not st.orelse and len(st.body) == 1):
            return None
        t = st.test
        if not (isinstance(t, ast.Call) and isinstance(t.func, ast.Name) and t.func.id == "isinstance" and len(t.args) == 2 and isinstance(t.args[0], ast.Name) and t.args[0].id in params):
            return None
        types = t.args[1].elts if isinstance(t.args[1], ast.Tuple) else [t.args[1]]
        if not all(dotted_name(x) in _WIDENING_TYPES for x in types):
            return None
        return t.args[0].id

    def walk(node, prefix):
        nonlocal changed
        for n in getattr(node, "body", []):
            if isinstance(n, ast.ClassDef):
                walk(n, prefix + n.name + ".")
            elif isinstance(n, ast.FunctionDef):
                q = prefix + n.name
                rf = ref_funcs.get(q)
                ref_tests = set(rf.get("tests", [])) if rf is not None else set()
                params = {a.arg for a in n.args.posonlyargs + n.args.args + n.args.kwonlyargs}
                # a fresh helper that is the identity except for exotic types: `if isinstance(p, (bytes, bytearray)): return p` /
                # `if isinstance(p, (memoryview, list, tuple)): return bytes(p)` / `return p`  ->  `return p`
                if rf is None:
                    body_ = [b for b in n.body if not (isinstance(b, ast.Expr) and isinstance(b.value, ast.Constant))]
                    if len(body_) >= 2 and isinstance(body_[-1], ast.Return) and isinstance(body_[-1].value, ast.Name) and body_[-1].value.id in params:
                        p_ = body_[-1].value.id
                        good = True
                        for b in body_[:-1]:
                            if not (isinstance(b, ast.If) and not b.orelse and len(b.body) == 1 and isinstance(b.body[0], ast.Return) and b.body[0].value is not None
                                    and isinstance(b.test, ast.Call) and isinstance(b.test.func, ast.Name) and b.test.func.id == "isinstance" and len(b.test.args) == 2
                                    and isinstance(b.test.args[0], ast.Name) and b.test.args[0].id == p_):
                                good = False
                                break
                            rv = b.body[0].value
                            types_ = b.test.args[1].elts if isinstance(b.test.args[1], ast.Tuple) else [b.test.args[1]]
                            if isinstance(rv, ast.Name) and rv.id == p_:
                                continue
                            if conv_of(rv, p_) and all(dotted_name(x) in _WIDENING_TYPES for x in types_):
                                continue
                            good = False
                            break
                        if good:
                            n.body = [body_[-1]]
                            changed = True
                i = 0
                while i < len(n.body):
                    st = n.body[i]
                    p = guard(st, params)
                    if p is not None and _key(st.test) not in ref_tests:
                        b = st.body[0]
                        if isinstance(b, ast.Assign) and len(b.targets) == 1 and isinstance(b.targets[0], ast.Name) and b.targets[0].id == p and conv_of(b.value, p):
                            # the parameter must not have been re-bound before the guard
                            if not any(isinstance(x, ast.Name) and x.id == p and isinstance(x.ctx, ast.Store) for s_ in n.body[:i] for x in ast.walk(s_)):
                                del n.body[i]
                                changed = True
                                continue
                        if isinstance(b, ast.Return) and b.value is not None and conv_of(b.value, p) and i + 1 < len(n.body) and isinstance(n.body[i + 1], ast.Return) \
                                and isinstance(n.body[i + 1].value, ast.Name) and n.body[i + 1].value.id == p:
                            del n.body[i]
                            changed = True
                            continue
                    if isinstance(st, ast.Expr) and isinstance(st.value, ast.Constant):
                        i += 1
                        continue
                    if p is None and not (isinstance(st, ast.If) and guard(st, params) is not None):
                        break                     # only the head of the function
                    i += 1
                if not n.body:
                    n.body.append(ast.Pass())
                walk(n, q + ".")
    walk(tree, "")
    return changed


_OBS_VALUE_CALLS = {"time.time", "time.monotonic", "time.perf_counter", "len", "max", "min", "int", "float", "abs", "round"}
_OBS_VALUE_METHODS = {"qsize"}


def drop_fresh_observational(tree: ast.Module, ref_mod: dict, observational: Set[str]) -> bool:
    """Statements that keep a statistic for the user -- a store or in-place update of an attribute of self that (a) the reference
    module does not mention and (b) nothing in the whole package reads except logging / __repr__ / an unused getter
    (effects.observational_attrs_of) -- with a value made of names, attributes, literals, arithmetic, len(), clocks: they cannot
    influence any frame, stored value, exception or result of another operation, and are removed from the canonical form."""
    import re as _re
    ref_attrs = set()
    for f_ in ref_mod.get("funcs", {}).values():
        ref_attrs |= set(_re.findall(r"\.([A-Za-z_][A-Za-z_0-9]*)", f_.get("src", "")))
    cand = observational - ref_attrs
    if not cand:
        return False

    def plain(v):
        if v is None:
            return True
        for x in ast.walk(v):
            if isinstance(x, ast.Call):
                ok = (dotted_name(x.func) in _OBS_VALUE_CALLS) or (isinstance(x.func, ast.Attribute) and x.func.attr in _OBS_VALUE_METHODS and not x.args)
                if not ok or x.keywords:
                    return False
            elif isinstance(x, (ast.Yield, ast.YieldFrom, ast.Await, ast.NamedExpr, ast.Lambda, ast.ListComp, ast.DictComp, ast.SetComp, ast.GeneratorExp, ast.Subscript)):
                return False
        return True
    changed = False
    for fn in [n for n in ast.walk(tree) if isinstance(n, ast.FunctionDef)]:
        for owner, fld, blk in blocks_of(fn):
            for st in list(blk):
                if isinstance(st, (ast.Assign, ast.AugAssign, ast.AnnAssign)):
                    tg = st.targets if isinstance(st, ast.Assign) else [st.target]
                    if all(isinstance(t, ast.Attribute) and isinstance(t.value, ast.Name) and t.value.id == "self" and t.attr in cand for t in tg) and plain(st.value):
                        blk.remove(st)
                        changed = True
            if not blk:
                blk.append(ast.Pass())
    return changed


def dotted_name(e: ast.AST) -> str:
    parts = []
    while isinstance(e, ast.Attribute):
        parts.append(e.attr)
        e = e.value
    if isinstance(e, ast.Name):
        parts.append(e.id)
        return ".".join(reversed(parts))
    return ""


def _propagate_leading_value(body: List[ast.stmt], name: str, value: ast.expr) -> List[ast.stmt]:
    """`name` holds `value` (a literal or a constant's name) on entry of this block: put the value where the name is read, up to
    the first statement that stores the name; an `if` whose test becomes constant that way is replaced by the branch taken (and
    the walk goes on inside it).  If the name may still be read after that, the binding `name = value` is kept in front."""
    from .loader import _Canonical

    class _S(ast.NodeTransformer):
        def visit_Name(self, x):
            if x.id == name and isinstance(x.ctx, ast.Load):
                return ast.copy_location(copy.deepcopy(value), x)
            return x

    def stores(node):
        return any(isinstance(x, ast.Name) and x.id == name and isinstance(x.ctx, (ast.Store, ast.Del)) for x in ast.walk(node))

    out: List[ast.stmt] = []
    rest = list(body)
    live = True               # the entry value is still what the name holds
    need_binding = False
    while rest:
        st = rest.pop(0)
        if not live:
            out.append(st)
            continue
        if not stores(st):
            out.append(_S().visit(st))
            continue
        if isinstance(st, ast.If):
            st.test = _Canonical().visit(_S().visit(st.test))
            ast.fix_missing_locations(st)
            if isinstance(st.test, ast.Constant):
                rest = list(st.body if st.test.value else st.orelse) + rest
                continue
            need_binding = True
            live = False
            out.append(st)
            continue
        if isinstance(st, ast.Assign) and len(st.targets) == 1 and isinstance(st.targets[0], ast.Name) and st.targets[0].id == name:
            st.value = _S().visit(st.value)
            out.append(st)
            live = False
            continue
        need_binding = True
        live = False
        out.append(st)
    if need_binding:
        out.insert(0, ast.Assign(targets=[ast.Name(id=name, ctx=ast.Store())], value=copy.deepcopy(value)))
    return out or [ast.Pass()]


def specialise_unpassed_defaults(tree: ast.Module, ref_mod: dict, repo_calls: dict) -> bool:
    """A parameter the reference function does not have, with a default (a literal or a module-level constant), which no call in the
    whole package passes and whose function is never handed on uncalled: inside the library the parameter IS its default.  The
    parameter is removed and its default put where it is read (or assigned first, when the function re-binds it), so that the
    constant folder and the other passes can finish the job (`timeout if timeout is not None else self.RESPONSE_TIMEOUT`).  What a
    user of the new keyword gets is outside every property: they are stated for the interface the pinned tree has."""
    ref_funcs = ref_mod.get("funcs", {})
    sites, bare = repo_calls.get("sites", {}), repo_calls.get("bare", set())
    mod_consts = {t.id for n in tree.body if isinstance(n, ast.Assign) and len(n.targets) == 1 for t in n.targets if isinstance(t, ast.Name)}
    multi = {nm for nm in mod_consts if sum(1 for x in ast.walk(tree) if isinstance(x, ast.Name) and x.id == nm and isinstance(x.ctx, ast.Store)) > 1}
    changed = False

    def walk(node, prefix, in_class):
        nonlocal changed
        for n in getattr(node, "body", []):
            if isinstance(n, ast.ClassDef):
                walk(n, prefix + n.name + ".", True)
            elif isinstance(n, ast.FunctionDef):
                q = prefix + n.name
                if any(isinstance(d, ast.Attribute) and d.attr == "setter" for d in n.decorator_list):
                    q += ".setter"
                rf = ref_funcs.get(q)
                if rf is not None and not n.args.vararg and not n.args.kwarg and n.name not in bare:
                    refp = set(rf.get("params", []))
                    a = n.args
                    pos = a.posonlyargs + a.args
                    is_method = in_class and not any(isinstance(d, ast.Name) and d.id == "staticmethod" for d in n.decorator_list)
                    ndef = len(a.defaults)
                    cand = []
                    for i, p in enumerate(pos):
                        di = i - (len(pos) - ndef)
                        if di >= 0 and p.arg not in refp:
                            cand.append(("pos", i, p, a.defaults[di]))
                    for i, p in enumerate(a.kwonlyargs):
                        if a.kw_defaults[i] is not None and p.arg not in refp:
                            cand.append(("kw", i, p, a.kw_defaults[i]))
                    # only trailing positional parameters can go (the ones before keep their positions)
                    for kind, i, p, d in sorted(cand, key=lambda c: (c[0] != "kw", -c[1])):
                        if not (isinstance(d, ast.Constant) or (isinstance(d, ast.Name) and d.id in mod_consts and d.id not in multi)
                                or (isinstance(d, ast.UnaryOp) and isinstance(d.operand, ast.Constant))):
                            continue
                        if kind == "pos" and i != len(a.posonlyargs + a.args) - 1:
                            continue
                        idx = i - (1 if is_method else 0)
                        passed = False
                        for npos, kws, star in sites.get(n.name, []):
                            if star or p.arg in kws or (kind == "pos" and npos > idx):
                                passed = True
                                break
                        if n.name == "__init__":
                            cname = prefix[:-1].split(".")[-1]
                            for npos, kws, star in sites.get(cname, []):
                                if star or p.arg in kws or (kind == "pos" and npos > idx):
                                    passed = True
                                    break
                            if cname in bare:
                                passed = True
                        if passed:
                            continue
                        # nested functions that re-define the name would shadow it: leave those cases alone
                        if any(isinstance(x, (ast.FunctionDef, ast.Lambda)) and x is not n and p.arg in {y.arg for y in ast.walk(x.args) if isinstance(y, ast.arg)} for x in ast.walk(n)):
                            continue
                        stored = any(isinstance(x, ast.Name) and x.id == p.arg and isinstance(x.ctx, (ast.Store, ast.Del)) for x in ast.walk(n))
                        if kind == "pos":
                            (a.args if p in a.args else a.posonlyargs).remove(p)
                            a.defaults.pop()
                        else:
                            a.kwonlyargs.pop(i)
                            a.kw_defaults.pop(i)
                        if stored:
                            n.body = _propagate_leading_value(n.body, p.arg, d)
                        else:
                            class _S(ast.NodeTransformer):
                                def visit_Name(self, x):
                                    if x.id == p.arg and isinstance(x.ctx, ast.Load):
                                        return ast.copy_location(copy.deepcopy(d), x)
                                    return x
                            n.body = [_S().visit(st) for st in n.body]
                        ast.fix_missing_locations(n)
                        changed = True
                walk(n, q + ".", False)
    walk(tree, "", False)
    return changed


def unroll_fresh_generators(tree: ast.Module, ref_mod: dict) -> None:
    """A generator method the reference does not have, whose body is a fixed sequence of `yield E` and `for x in it: yield E`,
    used only as `for T in self.g(): BODY`: the loop is written out -- per yield `T = E` + BODY, per yielding loop the loop
    with `T = E` + BODY inside.  Generator and consumer run interleaved in exactly that order."""
    ref_funcs = set(ref_mod.get("funcs", {}))
    for c in [n for n in tree.body if isinstance(n, ast.ClassDef)]:
        for g in [m for m in c.body if isinstance(m, ast.FunctionDef)]:
            if f"{c.name}.{g.name}" in ref_funcs or g.decorator_list or _params(g) != ["self"]:
                continue
            body = _strip_doc(g.body)

            def y_of(st):
                return st.value.value if isinstance(st, ast.Expr) and isinstance(st.value, ast.Yield) and st.value.value is not None else None
            ok = bool(body)
            for st in body:
                if y_of(st) is not None:
                    continue
                if isinstance(st, ast.For) and not st.orelse and len(st.body) == 1 and y_of(st.body[0]) is not None and isinstance(st.target, ast.Name):
                    continue
                ok = False
            if not ok:
                continue
            mangled = f"_{c.name}{g.name}" if g.name.startswith("__") and not g.name.endswith("__") else g.name
            refs = [x for x in ast.walk(tree) if isinstance(x, ast.Attribute) and x.attr in (g.name, mangled)]
            sites = []
            for m in [m for m in c.body if isinstance(m, ast.FunctionDef) and m is not g]:
                for _owner, _fld, blk in blocks_of(m):
                    for i, st in enumerate(blk):
                        if isinstance(st, ast.For) and isinstance(st.iter, ast.Call) and not st.iter.args and not st.iter.keywords and isinstance(st.iter.func, ast.Attribute) \
                                and st.iter.func.attr in (g.name, mangled) and isinstance(st.iter.func.value, ast.Name) and st.iter.func.value.id == "self":
                            sites.append((m, blk, st))
            if not sites or len(sites) != len(refs):
                continue

            def leaves_loop(stmts):
                for s_ in stmts:
                    if isinstance(s_, (ast.Break, ast.Continue)):
                        return True
                    if isinstance(s_, (ast.For, ast.While, ast.FunctionDef)):
                        continue
                    for fld in ("body", "orelse", "finalbody"):
                        if leaves_loop(getattr(s_, fld, []) or []):
                            return True
                    for h in getattr(s_, "handlers", []) or []:
                        if leaves_loop(h.body):
                            return True
                return False
            if any(st.orelse or leaves_loop(st.body) for _m, _b, st in sites):
                continue
            gen_locals = {st.target.id for st in body if isinstance(st, ast.For)}
            if any(gen_locals & _assigned_names(m) for m, _b, _st in sites):
                continue
            for m, blk, st in sites:
                new = []
                for gs in body:
                    e = y_of(gs)
                    if e is not None:
                        new.append(ast.Assign(targets=[copy.deepcopy(st.target)], value=copy.deepcopy(e)))
                        new += copy.deepcopy(st.body)
                    else:
                        inner = [ast.Assign(targets=[copy.deepcopy(st.target)], value=copy.deepcopy(y_of(gs.body[0])))] + copy.deepcopy(st.body)
                        new.append(ast.For(target=copy.deepcopy(gs.target), iter=copy.deepcopy(gs.iter), body=inner, orelse=[]))
                for n_ in new:
                    ast.copy_location(n_, st)
                    for x in ast.walk(n_):
                        if isinstance(x, ast.Tuple) and isinstance(getattr(x, "ctx", None), ast.Load) and False:
                            pass
                idx = next(k for k, s_ in enumerate(blk) if s_ is st)
                # the assignment targets need Store context
                for n_ in ast.walk(ast.Module(body=new, type_ignores=[])):
                    if isinstance(n_, ast.Assign):
                        for t_ in ast.walk(n_.targets[0]):
                            if hasattr(t_, "ctx"):
                                t_.ctx = ast.Store()
                blk[idx:idx + 1] = new
            c.body = [x for x in c.body if x is not g] or [ast.Pass()]
    ast.fix_missing_locations(tree)


def _dead_after(fn: ast.FunctionDef, call: ast.Call, name: str) -> bool:
    """Is local `name` never read after the statement containing `call` (source order; the call must not sit in a loop, where
    earlier statements run again)?"""
    order = []

    def rec(stmts, in_loop):
        for st in stmts:
            order.append((st, in_loop))
            for fld in ("body", "orelse", "finalbody"):
                sub = getattr(st, fld, None)
                if isinstance(sub, list) and sub and isinstance(sub[0], ast.stmt) and not isinstance(st, (ast.FunctionDef, ast.ClassDef)):
                    rec(sub, in_loop or isinstance(st, (ast.For, ast.While)))
            for h in getattr(st, "handlers", []) or []:
                rec(h.body, in_loop)
    rec(fn.body, False)
    idx = None
    for k, (st, in_loop) in enumerate(order):
        simple = not any(isinstance(getattr(st, fld, None), list) and getattr(st, fld) and isinstance(getattr(st, fld)[0], ast.stmt) for fld in ("body", "orelse", "finalbody"))
        if simple and any(x is call for x in ast.walk(st)):
            if in_loop:
                return False
            idx = k
    if idx is None:
        return False
    call_names = {id(x) for x in ast.walk(call)}
    for st, _l in order[idx + 1:]:
        own = st.test if isinstance(st, (ast.If, ast.While)) else (st.iter if isinstance(st, ast.For) else st)
        scope_nodes = list(ast.walk(own)) if not isinstance(st, (ast.Try, ast.With)) else [y for it in getattr(st, "items", []) for y in ast.walk(it.context_expr)]
        if isinstance(st, (ast.If, ast.While, ast.For)):
            pass
        if any(isinstance(x, ast.Name) and x.id == name and isinstance(x.ctx, ast.Load) for x in scope_nodes):
            return False
    # reads in the call statement itself outside the call (e.g. `f(x) + x`) count as after
    st0 = order[idx][0]
    if any(isinstance(x, ast.Name) and x.id == name and isinstance(x.ctx, ast.Load) and id(x) not in call_names for x in ast.walk(st0)):
        return False
    return True


def _nested_site(fn: ast.FunctionDef, call: ast.Call, body):
    """(block, index, statement) of the simple statement or if test that evaluates `call` somewhere inside, provided the
    helper is straight-line code ending in its only return and nothing that calls is evaluated before the call."""
    from .loader import _eval_events, _SIMPLE_STMTS
    if not body or not isinstance(body[-1], ast.Return) or any(isinstance(x, (ast.Return, ast.If, ast.For, ast.While, ast.Try, ast.With)) for s in body[:-1] for x in ast.walk(s)):
        return None
    for _owner, _fld, blk in blocks_of(fn):
        for i, st in enumerate(blk):
            scope = st.test if isinstance(st, ast.If) else (st if isinstance(st, _SIMPLE_STMTS) else None)
            if scope is None or not any(x is call for x in ast.walk(scope)):
                continue
            if any(isinstance(x, (ast.Lambda, ast.ListComp, ast.SetComp, ast.DictComp, ast.GeneratorExp, ast.IfExp, ast.BoolOp)) for x in ast.walk(scope)):
                return None
            events, reached = _eval_events(scope, call)
            # the call's own arguments are evaluated before it in both forms
            own = {id(x) for x in ast.walk(call)}
            if not reached or any(k == "call" and id(e) not in own for k, e in events):
                return None
            return blk, i, st
    return None


def _returns_to_assign(stmts: List[ast.stmt], targets) -> Optional[List[ast.stmt]]:
    """Statement list in which every path ends in `return e` -> the same with `targets = e` instead (returns must be in tail
    position: last statement, or last statement of the branches of a trailing if; a guard `if c: ... return x` followed by
    more statements is first turned into if/else)."""
    if not stmts:
        return None
    out = []
    for i, s in enumerate(stmts):
        last = i == len(stmts) - 1
        has_ret = any(isinstance(x, ast.Return) for x in ast.walk(s))
        if not has_ret:
            if last and not always_exits([s]):
                return None                 # falls off the end: would return None
            out.append(s)
            if last:
                return out
            continue
        if isinstance(s, ast.Return):
            if not last or s.value is None:
                return None
            same = len(targets) == 1 and (_u(targets[0]) == _u(s.value) or (isinstance(targets[0], ast.Tuple) and isinstance(s.value, ast.Tuple)
                                                                                and [_u(x) for x in targets[0].elts] == [_u(x) for x in s.value.elts]))
            if not same:
                out.append(ast.Assign(targets=[copy.deepcopy(t) for t in targets], value=s.value))
            return out
        if isinstance(s, ast.If):
            body, orelse = s.body, s.orelse
            rest = stmts[i + 1:]
            if not orelse and always_exits(body) and rest:
                orelse, rest = rest, []
            if rest:
                return None
            b = _returns_to_assign(body, targets)
            o = _returns_to_assign(orelse, targets) if orelse else None
            if b is None or o is None:
                return None
            out.append(ast.If(test=s.test, body=b or [ast.Pass()], orelse=o))
            return out
        if isinstance(s, ast.Try) and last and not s.finalbody and not s.orelse:
            # `try: ... return a` / `except E: ... return b`: every part ends in its return
            b = _returns_to_assign(s.body, targets)
            hs = [_returns_to_assign(h.body, targets) for h in s.handlers]
            if b is None or any(h is None for h in hs):
                return None
            out.append(ast.Try(body=b or [ast.Pass()], handlers=[ast.ExceptHandler(type=h.type, name=h.name, body=hb or [ast.Pass()]) for h, hb in zip(s.handlers, hs)],
                               orelse=[], finalbody=[]))
            return out
        return None
    return None


def _guard_to_nested(stmts: List[ast.stmt]) -> Optional[List[ast.stmt]]:
    """Body whose only returns are bare `return` in guard clauses `if c: return` at its top level -> nested ifs."""
    out = []
    for i, s in enumerate(stmts):
        if isinstance(s, ast.If) and len(s.body) == 1 and isinstance(s.body[0], ast.Return) and s.body[0].value is None and not s.orelse:
            rest = _guard_to_nested(stmts[i + 1:])
            if rest is None:
                return None
            if rest:
                out.append(ast.If(test=negate(s.test), body=rest, orelse=[]))
            return out
        if isinstance(s, ast.Return) and s.value is None and i == len(stmts) - 1:
            return out
        if any(isinstance(x, ast.Return) for x in ast.walk(s)):
            return None
        out.append(s)
    return out


def _replace_node(root: ast.AST, target: ast.AST, new: ast.AST) -> bool:
    for parent in ast.walk(root):
        for fld, val in ast.iter_fields(parent):
            if val is target:
                setattr(parent, fld, new)
                return True
            if isinstance(val, list):
                for i, v in enumerate(val):
                    if v is target:
                        val[i] = new
                        return True
    return False


def _stmt_of(fn: ast.FunctionDef, node: ast.AST):
    for _owner, _fld, blk in blocks_of(fn):
        for i, st in enumerate(blk):
            if isinstance(st, (ast.Expr, ast.Assign, ast.Return)) and getattr(st, "value", None) is node:
                return blk, i, st
    return None


# ----------------------------------------------------------------------------------------------- control flow
def normalise_control_flow(fn: ast.FunctionDef, ref_tests: List[str], ref_forms: Optional[Dict[str, str]] = None) -> None:
    """Turn round ifs whose test the reference function does not have but whose negation it has; then give an if whose
    test is known the form (guard clause / if-else) it has in the reference where that is a mere re-arrangement."""
    ref = set(ref_tests)
    if not ref:
        return
    ref_forms = ref_forms or {}
    for _round in range(6):
        changed = False
        for owner, fld, blk in blocks_of(fn):
            for i, st in enumerate(blk):
                if not isinstance(st, ast.If):
                    continue
                k = _key(st.test)
                if k in ref:
                    continue
                nk = _key(negate(st.test))
                rest = blk[i + 1:]
                is_fn_tail = owner is fn and fld == "body"
                is_loop_tail = isinstance(owner, (ast.For, ast.While)) and fld == "body"
                elif_chain = len(st.orelse) == 1 and isinstance(st.orelse[0], ast.If)
                if nk not in ref:
                    # `if a: if b: X`  <->  `if a and b: X`
                    if not st.orelse and len(st.body) == 1 and isinstance(st.body[0], ast.If) and not st.body[0].orelse:
                        merged = ast.BoolOp(op=ast.And(), values=[st.test, st.body[0].test])
                        if _key(merged) in ref:
                            st.test = merged
                            st.body = st.body[0].body
                            changed = True
                            break
                    t_ = split_chain(st.test)
                    if not st.orelse and isinstance(t_, ast.BoolOp) and isinstance(t_.op, ast.And) and len(t_.values) >= 2 and _key(t_.values[0]) in ref:
                        rest_t = t_.values[1] if len(t_.values) == 2 else ast.BoolOp(op=ast.And(), values=t_.values[1:])
                        if _key(rest_t) in ref:
                            st.test = t_.values[0]
                            st.body = [ast.copy_location(ast.If(test=rest_t, body=st.body, orelse=[]), st)]
                            changed = True
                            break
                    continue
                if st.orelse and not elif_chain:
                    st.test = negate(st.test)
                    st.body, st.orelse = st.orelse, st.body
                    changed = True
                elif not st.orelse and always_exits(st.body) and rest:
                    # guard clause: `if c: exit` + rest  ->  `if not c: rest [else: exit]`
                    exit_stmts = st.body
                    plain = len(exit_stmts) == 1 and ((isinstance(exit_stmts[0], ast.Return) and exit_stmts[0].value is None and is_fn_tail)
                                                      or (isinstance(exit_stmts[0], ast.Continue) and is_loop_tail))
                    st.test = negate(st.test)
                    st.body = rest
                    st.orelse = [] if plain else exit_stmts
                    del blk[i + 1:]
                    changed = True
                elif not st.orelse and not rest and (is_fn_tail or is_loop_tail) and not always_exits(st.body):
                    # nested form at the end of the function/loop body: `if c: body`  ->  `if not c: return/continue` + body
                    ex = ast.Return(value=None) if is_fn_tail else ast.Continue()
                    body = st.body
                    st.test = negate(st.test)
                    st.body = [ast.copy_location(ex, st)]
                    blk.extend(body)
                    changed = True
                if changed:
                    break
            if changed:
                break
        if not changed:
            # second phase: same test, other arrangement
            for owner, fld, blk in blocks_of(fn):
                for i, st in enumerate(blk):
                    if not isinstance(st, ast.If):
                        continue
                    want = ref_forms.get(_key(st.test))
                    rest = blk[i + 1:]
                    is_fn_tail = owner is fn and fld == "body"
                    is_loop_tail = isinstance(owner, (ast.For, ast.While)) and fld == "body"
                    elif_chain = len(st.orelse) == 1 and isinstance(st.orelse[0], ast.If)
                    if want == "guard" and elif_chain and always_exits(st.body):
                        # `if a: exit` / `elif b: ...`  ->  `if a: exit` + `if b: ...`
                        blk[i + 1:i + 1] = st.orelse
                        st.orelse = []
                        changed = True
                    elif want == "guard" and st.orelse and not elif_chain:
                        if always_exits(st.body):
                            blk[i + 1:i + 1] = st.orelse
                            st.orelse = []
                            changed = True
                        elif not rest and (is_fn_tail or is_loop_tail):
                            st.body.append(ast.copy_location(ast.Return(value=None) if is_fn_tail else ast.Continue(), st))
                            blk.extend(st.orelse)
                            st.orelse = []
                            changed = True
                    elif want == "else" and not st.orelse and always_exits(st.body) and rest:
                        st.orelse = rest
                        del blk[i + 1:]
                        changed = True
                    if changed:
                        break
                if changed:
                    break
        if not changed:
            break
    ast.fix_missing_locations(fn)


def sink_tail_into_branches(fn: ast.FunctionDef, ref_fn: dict) -> None:
    """if/elif chain some of whose branches leave, followed by one closing `return E` that the reference does not have: the
    closing statement is copied to the end of every branch that falls through (tail duplication; the inverse of hoisting)."""
    ref_lines = {l.strip() for l in ref_fn.get("src", "").splitlines()}
    if not ref_lines:
        return
    for _owner, _fld, blk in blocks_of(fn):
        for i, st in enumerate(blk):
            if not (isinstance(st, ast.If) and i + 2 == len(blk) and isinstance(blk[i + 1], ast.Return) and blk[i + 1].value is not None):
                continue
            tail = blk[i + 1]
            if _u(tail) in ref_lines:
                continue
            # leaves of the chain
            leaves = []

            def collect(node):
                leaves.append(node.body)
                if len(node.orelse) == 1 and isinstance(node.orelse[0], ast.If):
                    collect(node.orelse[0])
                elif node.orelse:
                    leaves.append(node.orelse)
                else:
                    leaves.append(None)         # implicit empty else falls through
            collect(st)
            if None in leaves or not any(always_exits(b) for b in leaves) or all(always_exits(b) for b in leaves):
                continue
            for b in leaves:
                if not always_exits(b):
                    b.append(copy.deepcopy(tail))
            del blk[i + 1]
            ast.fix_missing_locations(fn)
            return sink_tail_into_branches(fn, ref_fn)


def sink_use_into_branches(fn: ast.FunctionDef, ref_fn: dict, known) -> None:
    """`if c: ...; t = A` / `else: ...; t = B` followed by one simple statement S that reads the fresh local t and that the
    reference does not have in that form: S goes to the end of both branches (where t is then inlined)."""
    ref_lines = {l.strip() for l in ref_fn.get("src", "").splitlines()}
    if not ref_lines:
        return
    for _owner, _fld, blk in blocks_of(fn):
        for i, st in enumerate(blk):
            if not (isinstance(st, ast.If) and st.orelse and i + 1 < len(blk)):
                continue
            nxt = blk[i + 1]
            if not isinstance(nxt, (ast.Assign, ast.Expr, ast.AugAssign, ast.If)) or _u(nxt).splitlines()[0].strip() in ref_lines:
                continue
            leaves = []

            def collect(node):
                leaves.append(node.body)
                if len(node.orelse) == 1 and isinstance(node.orelse[0], ast.If):
                    collect(node.orelse[0])
                elif node.orelse:
                    leaves.append(node.orelse)
                else:
                    leaves.append(None)
            collect(st)
            if None in leaves or any(always_exits(b) for b in leaves):
                continue
            lasts = [b[-1] for b in leaves]
            if not all(isinstance(l, ast.Assign) and len(l.targets) == 1 and isinstance(l.targets[0], ast.Name) for l in lasts):
                continue
            t = lasts[0].targets[0].id
            if t in known or any(l.targets[0].id != t for l in lasts):
                continue
            loads = [x for x in ast.walk(fn) if isinstance(x, ast.Name) and x.id == t and isinstance(x.ctx, ast.Load)]
            if not loads or not all(any(x is y for y in ast.walk(nxt)) for x in loads):
                continue
            # the tests of the chain are evaluated before S in both forms; S must not be split from what follows by them
            for b in leaves:
                b.append(copy.deepcopy(nxt))
            del blk[i + 1]
            ast.fix_missing_locations(fn)
            return sink_use_into_branches(fn, ref_fn, known)


def enumerate_to_counter(fn: ast.FunctionDef, ref_fn: dict, known) -> None:
    """`for i, v in enumerate(it, start=k): body`  ->  `i = k` / `for v in it: body; i += 1` when the reference iterates over
    `it` directly; the body must not `continue` or assign i, and i must not be read after the loop."""
    ref_lines = {l.strip() for l in ref_fn.get("src", "").splitlines()}
    for _owner, _fld, blk in blocks_of(fn):
        for i, st in enumerate(blk):
            if not (isinstance(st, ast.For) and not st.orelse and isinstance(st.iter, ast.Call) and _u(st.iter.func) == "enumerate" and st.iter.args
                    and isinstance(st.target, ast.Tuple) and len(st.target.elts) == 2 and isinstance(st.target.elts[0], ast.Name)):
                continue
            it = st.iter.args[0]
            start = st.iter.args[1] if len(st.iter.args) == 2 else next((k.value for k in st.iter.keywords if k.arg == "start"), ast.Constant(value=0))
            if not isinstance(start, ast.Constant) or len(st.iter.args) + len(st.iter.keywords) > 2:
                continue
            if f"for {_u(st.target.elts[1])} in {_u(it)}:" not in ref_lines and not any(l.startswith("for ") and l.endswith(f" in {_u(it)}:") for l in ref_lines):
                continue
            cnt = st.target.elts[0].id
            if cnt in known and False:
                continue
            inner = [x for b in st.body for x in ast.walk(b)]
            own_continue = False

            def has_continue(stmts):
                for s_ in stmts:
                    if isinstance(s_, ast.Continue):
                        return True
                    if isinstance(s_, (ast.For, ast.While, ast.FunctionDef)):
                        continue
                    for fld in ("body", "orelse", "finalbody"):
                        if has_continue(getattr(s_, fld, []) or []):
                            return True
                    for h in getattr(s_, "handlers", []) or []:
                        if has_continue(h.body):
                            return True
                return False
            if has_continue(st.body) or any(isinstance(x, ast.Name) and x.id == cnt and isinstance(x.ctx, ast.Store) for x in inner):
                continue
            after = [x for later in blk[i + 1:] for x in ast.walk(later)]
            if any(isinstance(x, ast.Name) and x.id == cnt and isinstance(x.ctx, ast.Load) for x in after):
                # the counter is read after the loop: fine when it was set to start - 1 just before the loop (then it holds the number
                # of items, counted from start - 1, also for an empty iterable) -- the increment goes to the top of the body
                prev = blk[i - 1] if i > 0 else None
                if isinstance(prev, ast.Assign) and len(prev.targets) == 1 and isinstance(prev.targets[0], ast.Name) and prev.targets[0].id == cnt \
                        and isinstance(prev.value, ast.Constant) and type(prev.value.value) is int and type(start.value) is int and prev.value.value == start.value - 1 \
                        and not any(isinstance(x, ast.Name) and x.id == cnt and isinstance(x.ctx, ast.Store) for x in inner):
                    st.target = st.target.elts[1]
                    st.iter = it
                    st.body.insert(0, ast.AugAssign(target=ast.Name(id=cnt, ctx=ast.Store()), op=ast.Add(), value=ast.Constant(value=1)))
                    ast.fix_missing_locations(fn)
                    return enumerate_to_counter(fn, ref_fn, known)
                continue
            st.target = st.target.elts[1]
            st.iter = it
            st.body.append(ast.AugAssign(target=ast.Name(id=cnt, ctx=ast.Store()), op=ast.Add(), value=ast.Constant(value=1)))
            blk.insert(i, ast.copy_location(ast.Assign(targets=[ast.Name(id=cnt, ctx=ast.Store())], value=start), st))
            ast.fix_missing_locations(fn)
            return enumerate_to_counter(fn, ref_fn, known)


def adopt_reference_tests(fn: ast.FunctionDef, ref_fn: dict) -> None:
    """A test that is the reference's test in another spelling (same order-insensitive key: operands swapped, comparison
    mirrored, negation pushed inside, `x % 8 != 0` for `x % 8`) is given the reference's spelling."""
    srcs = ref_fn.get("test_src") or {}
    if not srcs:
        return
    for n in ast.walk(fn):
        if isinstance(n, (ast.If, ast.While, ast.IfExp, ast.Assert)):
            k = _key(n.test)
            want = srcs.get(k)
            if want is not None and _u(n.test) != want:
                try:
                    n.test = ast.copy_location(ast.parse(want, mode="eval").body, n.test)
                except SyntaxError:
                    pass
    ast.fix_missing_locations(fn)


def dict_iteration_forms(fn: ast.FunctionDef, ref_fn: dict) -> None:
    """`for k in D: ... D[k] ...`  ->  `for k, v in D.items(): ... v ...` where the reference iterates over D.items(); D is not
    stored into and k not re-bound inside the loop, so D[k] is the value the items() pair carries."""
    import re as _re
    ref_lines = [l.strip() for l in ref_fn.get("src", "").splitlines()]
    for node in [n for n in ast.walk(fn) if isinstance(n, ast.For)]:
        if not isinstance(node.target, ast.Name) or isinstance(node.iter, ast.Call):
            continue
        d_txt, k = _u(node.iter), node.target.id
        m = None
        for l in ref_lines:
            m = _re.fullmatch(r"for ([A-Za-z_][A-Za-z_0-9]*), ([A-Za-z_][A-Za-z_0-9]*) in " + _re.escape(d_txt) + r"\.items\(\):", l)
            if m:
                break
        if not m:
            continue
        v = m.group(2)
        if any(isinstance(x, ast.Name) and x.id == v for x in ast.walk(fn)):
            continue
        body_nodes = [x for st in node.body for x in ast.walk(st)]
        if any(isinstance(x, ast.Name) and x.id == k and isinstance(x.ctx, (ast.Store, ast.Del)) for x in body_nodes):
            continue
        if any(isinstance(x, ast.Subscript) and isinstance(x.ctx, (ast.Store, ast.Del)) and _u(x.value) == d_txt for x in body_nodes):
            continue
        hits = [x for x in body_nodes if isinstance(x, ast.Subscript) and isinstance(x.ctx, ast.Load) and _u(x.value) == d_txt and isinstance(x.slice, ast.Name) and x.slice.id == k]
        if not hits:
            continue
        for h in hits:
            _replace_node(node, h, ast.Name(id=v, ctx=ast.Load()))
        node.target = ast.Tuple(elts=[ast.Name(id=k, ctx=ast.Store()), ast.Name(id=v, ctx=ast.Store())], ctx=ast.Store())
        node.iter = ast.Call(func=ast.Attribute(value=node.iter, attr="items", ctx=ast.Load()), args=[], keywords=[])
    ast.fix_missing_locations(fn)


def specialise_constant_tail(fn: ast.FunctionDef, ref_fn: dict) -> None:
    """A branch that ends in `x = <literal>` and falls through to the short closing tail of the function (`self.pos += x` /
    `return x`): where the reference returns that literal directly (`return 0`), the tail is copied into the branch with the
    literal in place of x and folded (`self.pos += 0` goes, `return 0` stays)."""
    ref_lines = {l.strip() for l in ref_fn.get("src", "").splitlines()}
    blk = fn.body
    for i, st in enumerate(blk):
        if not isinstance(st, ast.If):
            continue
        tail = blk[i + 1:]
        if not tail or len(tail) > 3 or not isinstance(tail[-1], ast.Return) or any(not isinstance(t, (ast.Assign, ast.AugAssign, ast.Expr, ast.Return)) for t in tail):
            continue

        def leaves(stmts, out):
            if not stmts:
                return
            last = stmts[-1]
            if isinstance(last, ast.If):
                leaves(last.body, out)
                leaves(last.orelse, out)
            elif isinstance(last, ast.Assign) and len(last.targets) == 1 and isinstance(last.targets[0], ast.Name) and isinstance(last.value, ast.Constant):
                out.append(stmts)
        found = []
        leaves(st.body, found)
        leaves(st.orelse, found)
        for lf in found:
            x, c = lf[-1].targets[0].id, lf[-1].value
            if f"return {_u(c)}" not in ref_lines:
                continue
            if not any(isinstance(n, ast.Name) and n.id == x for t in tail for n in ast.walk(t)):
                continue
            if any(isinstance(n, ast.Name) and n.id == x and isinstance(n.ctx, ast.Store) for t in tail for n in ast.walk(t)):
                continue
            new_tail = []
            for t in tail:
                t2 = copy.deepcopy(t)
                for parent in ast.walk(t2):
                    for fld, val in ast.iter_fields(parent):
                        if isinstance(val, ast.Name) and val.id == x and isinstance(val.ctx, ast.Load):
                            setattr(parent, fld, copy.deepcopy(c))
                        elif isinstance(val, list):
                            for k, v in enumerate(val):
                                if isinstance(v, ast.Name) and v.id == x and isinstance(v.ctx, ast.Load):
                                    val[k] = copy.deepcopy(c)
                # `t += 0` / `t -= 0` on a number changes nothing
                if isinstance(t2, ast.AugAssign) and isinstance(t2.op, (ast.Add, ast.Sub)) and isinstance(t2.value, ast.Constant) and t2.value.value == 0 and type(t2.value.value) is int:
                    continue
                new_tail.append(t2)
            lf[-1:] = new_tail
            ast.fix_missing_locations(fn)
            return specialise_constant_tail(fn, ref_fn)


def unroll_literal_loops(fn: ast.FunctionDef, ref_fn: dict, known) -> None:
    """`for x in (A, B): BODY` over a literal tuple/list of at most four elements, x fresh, BODY without break/continue and
    without assignment to x: BODY[x := A]; BODY[x := B] -- when the reference has no loop over that literal.  Elements that are
    not plain names/constants/attribute chains are evaluated once per copy instead of once up front, so they must be pure chains."""
    ref_lines = {l.strip() for l in ref_fn.get("src", "").splitlines()}
    from .loader import _pure_chain
    for _owner, _fld, blk in blocks_of(fn):
        for i, st in enumerate(blk):
            if not (isinstance(st, ast.For) and not st.orelse and isinstance(st.target, ast.Name) and st.target.id not in known
                    and isinstance(st.iter, (ast.Tuple, ast.List)) and 1 <= len(st.iter.elts) <= 4):
                continue
            if _u(st).splitlines()[0].strip() in ref_lines:
                continue
            if not all(isinstance(e, ast.Constant) or _pure_chain(e) for e in st.iter.elts):
                continue
            x = st.target.id
            body_nodes = [n for b in st.body for n in ast.walk(b)]
            if any(isinstance(n, (ast.Break, ast.Continue, ast.FunctionDef, ast.Lambda)) for n in body_nodes):
                continue
            if any(isinstance(n, ast.Name) and n.id == x and isinstance(n.ctx, (ast.Store, ast.Del)) for n in body_nodes):
                continue
            if any(isinstance(n, ast.Name) and n.id == x for later in blk[i + 1:] for n in ast.walk(later)):
                continue
            # an element must not be changed by the body before its copy runs: attribute chains are re-read per copy in both forms
            # only if nothing in the body stores them; keep it simple and require that the body stores no attribute at all
            if any(isinstance(n, (ast.Attribute, ast.Subscript)) and isinstance(n.ctx, (ast.Store, ast.Del)) for n in body_nodes):
                continue
            new = []
            for e in st.iter.elts:
                for b in st.body:
                    b2 = copy.deepcopy(b)
                    for parent in ast.walk(b2):
                        for fld, val in ast.iter_fields(parent):
                            if isinstance(val, ast.Name) and val.id == x and isinstance(val.ctx, ast.Load):
                                setattr(parent, fld, copy.deepcopy(e))
                            elif isinstance(val, list):
                                for k, v in enumerate(val):
                                    if isinstance(v, ast.Name) and v.id == x and isinstance(v.ctx, ast.Load):
                                        val[k] = copy.deepcopy(e)
                    new.append(b2)
            blk[i:i + 1] = new
            ast.fix_missing_locations(fn)
            return unroll_literal_loops(fn, ref_fn, known)


def split_conditional_update(fn: ast.FunctionDef, ref_fn: dict, known) -> None:
    """`t = C` / `if c: ...; t op= E; ...` / `S(t)` with t a fresh local used nowhere else, C a literal, E without calls over names
    that the rest of the branch does not write: the using statement is specialised per branch --
    `if c: ...; S(C op E)` / `else: S(C)`."""
    ref_lines = {l.strip() for l in ref_fn.get("src", "").splitlines()}
    for _owner, _fld, blk in blocks_of(fn):
        for i in range(len(blk) - 2):
            a, b, c = blk[i], blk[i + 1], blk[i + 2]
            if not (isinstance(a, ast.Assign) and len(a.targets) == 1 and isinstance(a.targets[0], ast.Name) and isinstance(a.value, ast.Constant)
                    and isinstance(b, ast.If) and not b.orelse and isinstance(c, (ast.Assign, ast.Expr, ast.Return))):
                continue
            t = a.targets[0].id
            if t in known or _u(c).splitlines()[0].strip() in ref_lines:
                continue
            ups = [(k, st) for k, st in enumerate(b.body) if isinstance(st, (ast.AugAssign, ast.Assign)) and
                   ((isinstance(st, ast.AugAssign) and isinstance(st.target, ast.Name) and st.target.id == t) or
                    (isinstance(st, ast.Assign) and len(st.targets) == 1 and isinstance(st.targets[0], ast.Name) and st.targets[0].id == t))]
            if len(ups) != 1:
                continue
            k, up = ups[0]
            occ = [n for n in ast.walk(fn) if isinstance(n, ast.Name) and n.id == t]
            allowed = {id(n) for n in ast.walk(a)} | {id(n) for n in ast.walk(up)} | {id(n) for n in ast.walk(c)}
            if not all(id(n) in allowed for n in occ) or any(isinstance(n, ast.Name) and n.id == t for n in ast.walk(b.test)):
                continue
            if any(isinstance(n, ast.Name) and n.id == t and isinstance(n.ctx, ast.Store) for n in ast.walk(c)):
                continue
            e = up.value
            if any(isinstance(n, (ast.Call, ast.NamedExpr, ast.Await, ast.Yield)) for n in ast.walk(e)):
                continue
            enames = {n.id for n in ast.walk(e) if isinstance(n, ast.Name)} - {t}
            if any(isinstance(n, ast.Name) and n.id in enames and isinstance(n.ctx, (ast.Store, ast.Del)) for st in b.body[k + 1:] for n in ast.walk(st)):
                continue
            if any(isinstance(n, (ast.Attribute, ast.Subscript)) for n in ast.walk(e)):
                continue
            if always_exits(b.body):
                continue
            new_val = ast.BinOp(left=copy.deepcopy(a.value), op=up.op, right=copy.deepcopy(e)) if isinstance(up, ast.AugAssign) else copy.deepcopy(e)

            def spec(stmt, val):
                s2 = copy.deepcopy(stmt)
                for parent in ast.walk(s2):
                    for fld, v in ast.iter_fields(parent):
                        if isinstance(v, ast.Name) and v.id == t and isinstance(v.ctx, ast.Load):
                            setattr(parent, fld, copy.deepcopy(val))
                        elif isinstance(v, list):
                            for j, w in enumerate(v):
                                if isinstance(w, ast.Name) and w.id == t and isinstance(w.ctx, ast.Load):
                                    v[j] = copy.deepcopy(val)
                return s2
            b.body = [st for st in b.body if st is not up] + [spec(c, new_val)]
            b.orelse = [spec(c, a.value)]
            del blk[i + 2]
            del blk[i]
            ast.fix_missing_locations(fn)
            return split_conditional_update(fn, ref_fn, known)


def range_loops_to_while(fn: ast.FunctionDef, ref_fn: dict) -> None:
    """`for v in range(N): BODY` -> `v = 0` / `while v < N: BODY; v += 1`, and `for v in reversed(range(N))` (or range(N - 1, -1, -1))
    -> `v = N` / `while v > 0: v -= 1; BODY`, where the reference function counts with a while loop of that form (`while x < N:` with
    `x += 1`, `while x > 0:` with `x -= 1`).  The body must not assign v; counting up it must not `continue`, and v must not be read
    after the loop (it ends one higher)."""
    import re as _re
    ref_lines = [l.strip() for l in ref_fn.get("src", "").splitlines()]
    has_up = any(_re.fullmatch(r"while [A-Za-z_]\w* < .+:", l) for l in ref_lines) and any(_re.fullmatch(r"[A-Za-z_]\w* \+= 1", l) for l in ref_lines)
    has_down = any(_re.fullmatch(r"while [A-Za-z_]\w* > 0:", l) for l in ref_lines) and any(_re.fullmatch(r"[A-Za-z_]\w* -= 1", l) for l in ref_lines)
    if not (has_up or has_down):
        return

    def has_continue(stmts):
        for s_ in stmts:
            if isinstance(s_, ast.Continue):
                return True
            if isinstance(s_, (ast.For, ast.While, ast.FunctionDef)):
                continue
            for fld in ("body", "orelse", "finalbody"):
                if has_continue(getattr(s_, fld, []) or []):
                    return True
            for h in getattr(s_, "handlers", []) or []:
                if has_continue(h.body):
                    return True
        return False
    for _owner, _fld, blk in blocks_of(fn):
        for i, st in enumerate(blk):
            if not (isinstance(st, ast.For) and not st.orelse and isinstance(st.target, ast.Name) and isinstance(st.iter, ast.Call)):
                continue
            v = st.target.id
            body_nodes = [n for b in st.body for n in ast.walk(b)]
            if any(isinstance(n, ast.Name) and n.id == v and isinstance(n.ctx, (ast.Store, ast.Del)) for n in body_nodes):
                continue
            it = st.iter
            up_n = down_n = None
            if _u(it.func) == "range" and not it.keywords:
                if len(it.args) == 1:
                    up_n = it.args[0]
                elif len(it.args) == 2 and isinstance(it.args[0], ast.Constant) and it.args[0].value == 0:
                    up_n = it.args[1]
                elif len(it.args) == 3 and all(isinstance(a, (ast.Constant, ast.UnaryOp)) for a in it.args[1:]) and _u(it.args[1]) == "-1" and _u(it.args[2]) == "-1":
                    # range(N - 1, -1, -1)
                    a0 = it.args[0]
                    if isinstance(a0, ast.Constant) and isinstance(a0.value, int):
                        down_n = ast.Constant(value=a0.value + 1)
                    elif isinstance(a0, ast.BinOp) and isinstance(a0.op, ast.Sub) and isinstance(a0.right, ast.Constant) and a0.right.value == 1:
                        down_n = a0.left
            elif _u(it.func) == "reversed" and len(it.args) == 1 and isinstance(it.args[0], ast.Call) and _u(it.args[0].func) == "range" and len(it.args[0].args) == 1:
                down_n = it.args[0].args[0]
            if up_n is not None and has_up:
                if has_continue(st.body):
                    continue
                if any(isinstance(n, ast.Name) and n.id == v and isinstance(n.ctx, ast.Load) for later in blk[i + 1:] for n in ast.walk(later)):
                    continue
                if any(isinstance(n, ast.Call) for n in ast.walk(up_n)):
                    continue
                loop = ast.While(test=ast.Compare(left=ast.Name(id=v, ctx=ast.Load()), ops=[ast.Lt()], comparators=[up_n]),
                                 body=st.body + [ast.AugAssign(target=ast.Name(id=v, ctx=ast.Store()), op=ast.Add(), value=ast.Constant(value=1))], orelse=[])
                blk[i:i + 1] = [ast.copy_location(ast.Assign(targets=[ast.Name(id=v, ctx=ast.Store())], value=ast.Constant(value=0)), st), ast.copy_location(loop, st)]
            elif down_n is not None and has_down:
                if any(isinstance(n, ast.Call) for n in ast.walk(down_n)):
                    continue
                loop = ast.While(test=ast.Compare(left=ast.Name(id=v, ctx=ast.Load()), ops=[ast.Gt()], comparators=[ast.Constant(value=0)]),
                                 body=[ast.AugAssign(target=ast.Name(id=v, ctx=ast.Store()), op=ast.Sub(), value=ast.Constant(value=1))] + st.body, orelse=[])
                blk[i:i + 1] = [ast.copy_location(ast.Assign(targets=[ast.Name(id=v, ctx=ast.Store())], value=down_n), st), ast.copy_location(loop, st)]
            else:
                continue
            ast.fix_missing_locations(fn)
            return range_loops_to_while(fn, ref_fn)


def thread_none_flag(fn: ast.FunctionDef, known) -> None:
    """`if A: t = None else: t = E` directly followed by `if t is None: X` with X leaving the function and E a value that is
    never None (arithmetic, len(), a non-None literal): the flag variable is threaded away -- `if A: X`, then `t = E` and the rest."""
    def never_none(e):
        if isinstance(e, ast.Constant):
            return e.value is not None
        if isinstance(e, (ast.BinOp, ast.Compare, ast.JoinedStr, ast.Tuple, ast.List, ast.Dict)):
            return True
        if isinstance(e, ast.Call) and isinstance(e.func, ast.Name) and e.func.id in ("len", "int", "float", "str", "bytes", "bytearray", "bool", "abs", "min", "max", "list", "tuple"):
            return True
        return False
    for _owner, _fld, blk in blocks_of(fn):
        for i in range(len(blk) - 1):
            a, b = blk[i], blk[i + 1]
            if not (isinstance(a, ast.If) and len(a.body) == 1 and len(a.orelse) == 1 and all(isinstance(x, ast.Assign) and len(x.targets) == 1 and isinstance(x.targets[0], ast.Name)
                                                                                              for x in (a.body[0], a.orelse[0]))):
                continue
            t = a.body[0].targets[0].id
            if a.orelse[0].targets[0].id != t:
                continue
            vb, vo = a.body[0].value, a.orelse[0].value
            cond = a.test
            if isinstance(vo, ast.Constant) and vo.value is None and never_none(vb):
                vb, vo, cond = vo, vb, negate(cond)
            if not (isinstance(vb, ast.Constant) and vb.value is None and never_none(vo)):
                continue
            if not (isinstance(b, ast.If) and not b.orelse and isinstance(b.test, ast.Compare) and len(b.test.ops) == 1 and isinstance(b.test.ops[0], ast.Is)
                    and isinstance(b.test.left, ast.Name) and b.test.left.id == t and isinstance(b.test.comparators[0], ast.Constant) and b.test.comparators[0].value is None
                    and always_exits(b.body)):
                continue
            if any(isinstance(x, ast.Name) and x.id == t for st in b.body for x in ast.walk(st)):
                continue
            blk[i:i + 2] = [ast.copy_location(ast.If(test=cond, body=b.body, orelse=[]), a), ast.copy_location(ast.Assign(targets=[ast.Name(id=t, ctx=ast.Store())], value=vo), a)]
            ast.fix_missing_locations(fn)
            return thread_none_flag(fn, known)


def hoist_common_tail(fn: ast.FunctionDef, ref_fn: dict) -> None:
    """`if c: A; T else: B; T`  ->  `if c: A else: B` + T, for a statement T that the reference function has fewer times than
    the current one (tail duplication undone).  Falling off the end of either branch reaches T in both forms."""
    ref_src = ref_fn.get("src", "")
    ref_lines = [l.strip() for l in ref_src.splitlines()]
    # a `return E` at the end of a branch of the if chain that is followed by the closing `return x`, where the reference has
    # `x = E` in that place: the branch assigns and falls through to the closing return
    for owner, fld, blk in blocks_of(fn):
        if len(blk) >= 2 and isinstance(blk[-1], ast.Return) and isinstance(blk[-1].value, ast.Name) and isinstance(blk[-2], ast.If):
            x_ = blk[-1].value.id

            def tails(stmts):
                if not stmts:
                    return
                last = stmts[-1]
                if isinstance(last, ast.Return) and last.value is not None and not isinstance(last.value, ast.Name) and f"{x_} = {_u(last.value)}" in ref_lines:
                    stmts[-1] = ast.copy_location(ast.Assign(targets=[ast.Name(id=x_, ctx=ast.Store())], value=last.value), last)
                elif isinstance(last, ast.If):
                    tails(last.body)
                    tails(last.orelse)
            tails(blk[-2].body)
            tails(blk[-2].orelse)
    # every path of the closing if chain (nested chains included) ends in `return E_i`, the reference ends in `return x` and has
    # `x = E_i` for each E_i that is not x itself: the leaves assign, one closing `return x` follows the chain
    if fn.body and isinstance(fn.body[-1], ast.If) and ref_lines and ref_lines[-1].startswith("return ") and ref_lines[-1][7:].isidentifier():
        x_ = ref_lines[-1][7:]

        def leaves_of(stmts):
            if not stmts:
                return None
            last = stmts[-1]
            if isinstance(last, ast.Return) and last.value is not None:
                return [(stmts, last)]
            if isinstance(last, ast.If) and last.orelse:
                a_, b_ = leaves_of(last.body), leaves_of(last.orelse)
                return None if a_ is None or b_ is None else a_ + b_
            return None
        lv = leaves_of(fn.body)
        if lv and len(lv) >= 2 and all(_u(r.value) == x_ or f"{x_} = {_u(r.value)}" in ref_lines for _b, r in lv) and any(_u(r.value) != x_ for _b, r in lv):
            for b_, r in lv:
                if _u(r.value) == x_:
                    b_.pop()
                    if not b_:
                        b_.append(ast.copy_location(ast.Pass(), r))
                else:
                    b_[-1] = ast.copy_location(ast.Assign(targets=[ast.Name(id=x_, ctx=ast.Store())], value=r.value), r)
            fn.body.append(ast.copy_location(ast.Return(value=ast.Name(id=x_, ctx=ast.Load())), fn.body[-1]))
            ast.fix_missing_locations(fn)
    for _round in range(8):
        changed = False
        cur_lines = [l.strip() for l in ast.unparse(fn).splitlines()]
        for owner, fld, blk in blocks_of(fn):
            for i, st in enumerate(blk):
                if not (isinstance(st, ast.If) and st.orelse and st.body):
                    continue
                # an if/elif/else chain every leaf of which ends in `return E_i`, where the reference assigns x = E_i in the
                # leaves and returns x behind the chain
                if i + 1 == len(blk):
                    leaves = []

                    def collect(node):
                        leaves.append(node.body)
                        if len(node.orelse) == 1 and isinstance(node.orelse[0], ast.If):
                            collect(node.orelse[0])
                        else:
                            leaves.append(node.orelse)
                    collect(st)
                    if len(leaves) >= 2 and all(b_ and isinstance(b_[-1], ast.Return) and b_[-1].value is not None for b_ in leaves):
                        xs = set()
                        for l_ in ref_lines:
                            if l_.startswith("return ") and l_[7:].isidentifier():
                                xs.add(l_[7:])
                        for x_ in sorted(xs):
                            if all(f"{x_} = {_u(b_[-1].value)}" in ref_lines or _u(b_[-1].value) == x_ for b_ in leaves):
                                for b_ in leaves:
                                    r_ = b_.pop()
                                    if _u(r_.value) != x_:
                                        b_.append(ast.copy_location(ast.Assign(targets=[ast.Name(id=x_, ctx=ast.Store())], value=r_.value), r_))
                                    elif not b_:
                                        b_.append(ast.copy_location(ast.Pass(), r_))
                                blk.append(ast.copy_location(ast.Return(value=ast.Name(id=x_, ctx=ast.Load())), st))
                                changed = True
                                break
                        if changed:
                            break
                a, b = st.body[-1], st.orelse[-1]
                # `...; return E` / `...; return x`  ->  `...; x = E` / `...` + `return x`, when the reference assigns x = E
                if isinstance(a, ast.Return) and isinstance(b, ast.Return) and a.value is not None and b.value is not None and _u(a) != _u(b):
                    for this, other, branch in ((a, b, st.body), (b, a, st.orelse)):
                        if isinstance(other.value, ast.Name) and not isinstance(this.value, ast.Name) and f"{other.value.id} = {_u(this.value)}" in ref_lines \
                                and f"return {other.value.id}" in ref_lines:
                            branch[-1] = ast.copy_location(ast.Assign(targets=[ast.Name(id=other.value.id, ctx=ast.Store())], value=this.value), this)
                            branch.append(ast.copy_location(ast.Return(value=ast.Name(id=other.value.id, ctx=ast.Load())), this))
                            a, b = st.body[-1], st.orelse[-1]
                            break
                if isinstance(a, (ast.If, ast.For, ast.While, ast.Try, ast.With, ast.FunctionDef, ast.ClassDef, ast.Pass)) or _u(a) != _u(b):
                    continue
                line = _u(a).splitlines()[0].strip()
                if cur_lines.count(line) <= ref_lines.count(line) or ref_lines.count(line) == 0:
                    continue
                if always_exits([a]) and blk[i + 1:]:
                    continue                    # both branches leave: what follows is dead in either form, leave it
                st.body.pop()
                st.orelse.pop()
                if not st.body:
                    st.body = [ast.copy_location(ast.Pass(), st)]
                blk.insert(i + 1, a)
                changed = True
                break
            if changed:
                break
        if not changed:
            break
    ast.fix_missing_locations(fn)


# ----------------------------------------------------------------------------------------------- renamed private members
def stored_attrs(c: ast.ClassDef) -> List[str]:
    out = set()
    for m in [n for n in c.body if isinstance(n, ast.FunctionDef)]:
        for x in ast.walk(m):
            if isinstance(x, ast.Attribute) and isinstance(x.ctx, ast.Store) and isinstance(x.value, ast.Name) and x.value.id == "self":
                out.add(x.attr)
    return sorted(out)


def init_attr_order(c: ast.ClassDef) -> List[str]:
    out = []
    for m in [n for n in c.body if isinstance(n, ast.FunctionDef) and n.name == "__init__"]:
        for st in ast.walk(m):
            if isinstance(st, (ast.Assign, ast.AnnAssign)):
                for t in (st.targets if isinstance(st, ast.Assign) else [st.target]):
                    if isinstance(t, ast.Attribute) and isinstance(t.value, ast.Name) and t.value.id == "self" and t.attr not in out:
                        out.append(t.attr)
    return out


def rename_fresh_members(tree: ast.Module, ref_mod: dict) -> None:
    """A private attribute or method that was renamed consistently (the reference name no longer occurs, a name the
    reference does not know takes its place) gets the reference name back.  Pure alpha-renaming of members; refused
    unless the pairing is unambiguous."""
    import difflib
    ref_attrs = ref_mod.get("class_attrs", {})
    ref_order = ref_mod.get("init_attr_order", {})
    ref_funcs = set(ref_mod.get("funcs", {}))
    all_ref_attr_names = {a for v in ref_attrs.values() for a in v}
    all_attr_uses = {}
    for x in ast.walk(tree):
        if isinstance(x, ast.Attribute):
            all_attr_uses.setdefault(x.attr, []).append(x)
    mapping = {}
    for c in [n for n in tree.body if isinstance(n, ast.ClassDef)]:
        if c.name not in ref_attrs:
            continue
        cur = set(stored_attrs(c))
        ref = set(ref_attrs[c.name])
        self_uses = {x.attr for x in ast.walk(c) if isinstance(x, ast.Attribute) and isinstance(x.value, ast.Name) and x.value.id == "self"}
        missing = sorted(a for a in ref - cur if a not in self_uses)               # no longer an attribute of this class's instances
        fresh = sorted(a for a in cur - ref if a not in all_ref_attr_names and a.startswith("_"))
        if missing and fresh:
            pairs = {}
            if len(missing) == 1 and len(fresh) == 1:
                pairs[fresh[0]] = missing[0]
            else:
                a_, b_ = ref_order.get(c.name, []), init_attr_order(c)
                for tag, i1, i2, j1, j2 in difflib.SequenceMatcher(None, a_, b_, autojunk=False).get_opcodes():
                    if tag == "replace" and i2 - i1 == j2 - j1:
                        for x, y in zip(a_[i1:i2], b_[j1:j2]):
                            if x in missing and y in fresh:
                                pairs[y] = x
            for f_, m_ in pairs.items():
                if mapping.get(f_, m_) != m_:
                    return
                mapping[f_] = m_
        # methods
        cur_m = {n.name for n in c.body if isinstance(n, ast.FunctionDef)}
        ref_m = {q.split(".", 1)[1] for q in ref_funcs if q.startswith(c.name + ".") and q.count(".") == 1}
        defined_elsewhere = {n.name for k in tree.body if isinstance(k, ast.ClassDef) and k is not c for n in k.body if isinstance(n, ast.FunctionDef)}
        miss_m = sorted(m for m in ref_m - cur_m if m not in all_attr_uses and m not in defined_elsewhere and not (m.startswith("__") and m.endswith("__")))
        fresh_m = sorted(m for m in cur_m - ref_m if m.startswith("_") and m not in defined_elsewhere and not (m.startswith("__") and m.endswith("__")))
        if len(miss_m) == 1 and len(fresh_m) == 1:
            if mapping.get(fresh_m[0], miss_m[0]) != miss_m[0]:
                return
            mapping[fresh_m[0]] = miss_m[0]
        elif miss_m and fresh_m:
            # several private methods gone and several new ones: pair those whose parameter lists agree and whose bodies are
            # alike (line similarity of the source with the method names blanked), each side used at most once
            import difflib as _dl

            def body_lines(src_text):
                try:
                    t_ = ast.parse(src_text)
                except SyntaxError:
                    return []
                f_ = t_.body[0]
                return [l.strip() for st_ in f_.body for l in _u(st_).splitlines()]
            cand = []
            for m_ in miss_m:
                rf_ = ref_mod["funcs"].get(f"{c.name}.{m_}", {})
                for f_ in fresh_m:
                    node_ = next(n for n in c.body if isinstance(n, ast.FunctionDef) and n.name == f_)
                    cur_ps = [a.arg for a in node_.args.posonlyargs + node_.args.args + node_.args.kwonlyargs]
                    if len(cur_ps) != len(rf_.get("params", [])):
                        continue
                    # compare with the parameters called as in the reference (a renamed parameter is not a difference)
                    node2_ = copy.deepcopy(node_)
                    pmap_ = dict(zip(cur_ps, rf_.get("params", [])))
                    for x_ in ast.walk(node2_):
                        if isinstance(x_, ast.Name) and x_.id in pmap_:
                            x_.id = pmap_[x_.id]
                    ratio = _dl.SequenceMatcher(None, body_lines(rf_.get("src", "")), [l.strip() for st_ in node2_.body for l in _u(st_).splitlines()
                                                                                             if not (isinstance(st_, ast.Expr) and isinstance(st_.value, ast.Constant))], autojunk=False).ratio()
                    # the names themselves are evidence too (`_get_by_index` for `__getitem_by_index`)
                    name_ratio = _dl.SequenceMatcher(None, m_.strip("_"), f_.strip("_")).ratio()
                    cand.append((max(ratio, 0.9 * name_ratio if name_ratio >= 0.6 else 0.0), m_, f_))
            cand.sort(reverse=True)
            used_m, used_f = set(), set()
            for ratio, m_, f_ in cand:
                if ratio < 0.4 or m_ in used_m or f_ in used_f:
                    continue
                rivals = [r for r, m2, f2 in cand if (m2 == m_) != (f2 == f_) and r >= ratio - 0.15 and (m2 == m_ or f2 == f_)]
                if rivals:
                    continue
                if mapping.get(f_, m_) != m_:
                    return
                mapping[f_] = m_
                used_m.add(m_)
                used_f.add(f_)
    # module-level private functions
    cur_f = {n.name for n in tree.body if isinstance(n, ast.FunctionDef)}
    ref_f = {q for q in ref_funcs if "." not in q}
    name_uses = {x.id for x in ast.walk(tree) if isinstance(x, ast.Name)}
    miss_f = sorted(f for f in ref_f - cur_f if f not in name_uses)
    fresh_f = sorted(f for f in cur_f - ref_f if f.startswith("_"))
    fmap = {}
    if len(miss_f) == 1 and len(fresh_f) == 1:
        fmap[fresh_f[0]] = miss_f[0]
    elif miss_f and len(miss_f) == len(fresh_f):
        # pair by parameter list and test keys (both survive a rename of the function itself)
        sig = {f: (tuple(ref_mod["funcs"][f].get("params", [])), tuple(sorted(ref_mod["funcs"][f].get("tests", [])))) for f in miss_f}
        cur_sig = {}
        for n in tree.body:
            if isinstance(n, ast.FunctionDef) and n.name in fresh_f:
                cur_sig[n.name] = (tuple(x.arg for x in n.args.posonlyargs + n.args.args + n.args.kwonlyargs), tuple(sorted(test_keys_of(n))))
        for f_, sg in cur_sig.items():
            cands = [m for m, s_ in sig.items() if s_ == sg]
            if len(cands) == 1 and cands[0] not in fmap.values():
                fmap[f_] = cands[0]
        if len(fmap) != len(fresh_f):
            fmap = {}
    if not mapping and not fmap:
        return
    if len(set(mapping.values())) != len(mapping):
        return
    for x in ast.walk(tree):
        if isinstance(x, ast.Call) and isinstance(x.func, ast.Name) and x.func.id in ("hasattr", "getattr", "setattr", "delattr") and len(x.args) >= 2 \
                and isinstance(x.args[1], ast.Constant) and isinstance(x.args[1].value, str) and x.args[1].value in mapping:
            x.args[1] = ast.copy_location(ast.Constant(value=mapping[x.args[1].value]), x.args[1])
    for x in ast.walk(tree):
        if isinstance(x, ast.Attribute) and x.attr in mapping:
            x.attr = mapping[x.attr]
        elif isinstance(x, ast.FunctionDef) and x.name in mapping and any(x in c.body for c in tree.body if isinstance(c, ast.ClassDef)):
            x.name = mapping[x.name]
        elif isinstance(x, ast.FunctionDef) and x.name in fmap and x in tree.body:
            x.name = fmap[x.name]
        elif isinstance(x, ast.Name) and x.id in fmap:
            x.id = fmap[x.id]


# ----------------------------------------------------------------------------------------------- statement <-> expression forms
def _adopt_arithmetic_spelling(fn: ast.FunctionDef, ref_fn: dict) -> None:
    """Equal-valued spellings of integer arithmetic, taken over from the reference function where that makes the expression read as one
    of its own: `e << k` <-> `e * 2**k` (k a literal), `e * 8` <-> `e << 3`; `e & F == F` / `e & F != 0` <-> `bool(e & F)` for a
    single-bit F (a literal or a module constant); `(a, b) = divmod(x, n)` is left alone."""
    ref_src = ref_fn.get("src", "")
    if not ref_src:
        return
    try:
        ref_exprs = {ast.unparse(x) for x in ast.walk(ast.parse(ref_src)) if isinstance(x, ast.expr)}
    except SyntaxError:
        return

    class _T(ast.NodeTransformer):
        def visit_BinOp(self, node):
            self.generic_visit(node)
            if ast.unparse(node) in ref_exprs:
                return node
            if isinstance(node.op, ast.LShift) and isinstance(node.right, ast.Constant) and type(node.right.value) is int and 0 < node.right.value < 32:
                alt = ast.BinOp(left=node.left, op=ast.Mult(), right=ast.Constant(value=1 << node.right.value))
                if ast.unparse(alt) in ref_exprs:
                    return ast.copy_location(alt, node)
            if isinstance(node.op, ast.Mult) and isinstance(node.right, ast.Constant) and type(node.right.value) is int and node.right.value > 1 \
                    and node.right.value & (node.right.value - 1) == 0:
                alt = ast.BinOp(left=node.left, op=ast.LShift(), right=ast.Constant(value=node.right.value.bit_length() - 1))
                if ast.unparse(alt) in ref_exprs:
                    return ast.copy_location(alt, node)
            return node

        def visit_Compare(self, node):
            self.generic_visit(node)
            if ast.unparse(node) in ref_exprs:
                return node
            if len(node.ops) == 1 and isinstance(node.left, ast.BinOp) and isinstance(node.left.op, ast.BitAnd):
                f_ = node.left.right
                c_ = node.comparators[0]
                same_mask = isinstance(node.ops[0], ast.Eq) and ast.unparse(c_) == ast.unparse(f_)
                nonzero = isinstance(node.ops[0], ast.NotEq) and isinstance(c_, ast.Constant) and c_.value == 0 and type(c_.value) is int
                if same_mask or nonzero:
                    alt = ast.Call(func=ast.Name(id="bool", ctx=ast.Load()), args=[node.left], keywords=[])
                    if ast.unparse(alt) in ref_exprs and (nonzero or _single_bit(fn, f_)):
                        return ast.copy_location(alt, node)
            return node
    for i, st in enumerate(fn.body):
        fn.body[i] = _T().visit(st)
    ast.fix_missing_locations(fn)


def _single_bit(fn, f_) -> bool:
    """f_ is a power of two: an integer literal, or a name the enclosing module binds once to one (looked up through the function's
    module when the canonicaliser attached it)."""
    if isinstance(f_, ast.Constant) and type(f_.value) is int:
        return f_.value > 0 and f_.value & (f_.value - 1) == 0
    consts = getattr(fn, "_module_int_consts", None)
    if isinstance(f_, ast.Name) and consts is not None and f_.id in consts:
        v = consts[f_.id]
        return v > 0 and v & (v - 1) == 0
    return False


def normalise_expression_forms(fn: ast.FunctionDef, ref_fn: dict) -> None:
    """`return A if c else B`  <->  `if c: return A` / `else: return B`, and `x = []` + `for v in it: x.append(e)` ->
    `x = [e for v in it]`, chosen so that the function has the form the reference function has."""
    stmt_keys = set(ref_fn.get("stmt_tests", []))
    expr_keys = set(ref_fn.get("ifexp_tests", []))
    _adopt_arithmetic_spelling(fn, ref_fn)
    # a conditional expression whose test the reference has the other way round
    for ie in [x for x in ast.walk(fn) if isinstance(x, ast.IfExp)]:
        k, nk = _key(ie.test), _key(negate(ie.test))
        if k not in expr_keys and nk in expr_keys:
            ie.test, ie.body, ie.orelse = negate(ie.test), ie.orelse, ie.body
    for _round in range(4):
        changed = False
        for owner, fld, blk in blocks_of(fn):
            for i, st in enumerate(blk):
                # conditional-expression return where the reference has an if statement
                if isinstance(st, ast.Return) and isinstance(st.value, ast.IfExp):
                    k, nk = _key(st.value.test), _key(negate(st.value.test))
                    if k not in expr_keys and nk not in expr_keys and (k in stmt_keys or nk in stmt_keys):
                        ie = st.value
                        new = ast.If(test=ie.test, body=[ast.Return(value=ie.body)], orelse=[ast.Return(value=ie.orelse)])
                        blk[i] = ast.copy_location(new, st)
                        changed = True
                        break
                # if statement of two returns where the reference has a conditional expression
                if isinstance(st, ast.If) and len(st.body) == 1 and isinstance(st.body[0], ast.Return) and st.body[0].value is not None:
                    k, nk = _key(st.test), _key(negate(st.test))
                    other = None
                    if len(st.orelse) == 1 and isinstance(st.orelse[0], ast.Return) and st.orelse[0].value is not None:
                        other, drop = st.orelse[0].value, 0
                    elif not st.orelse and i + 1 < len(blk) and isinstance(blk[i + 1], ast.Return) and blk[i + 1].value is not None:
                        other, drop = blk[i + 1].value, 1
                    if other is not None and k not in stmt_keys and nk not in stmt_keys and (k in expr_keys or nk in expr_keys):
                        test, a, b = st.test, st.body[0].value, other
                        if k not in expr_keys:
                            test, a, b = negate(test), b, a
                        blk[i] = ast.copy_location(ast.Return(value=ast.IfExp(test=test, body=a, orelse=b)), st)
                        if drop:
                            del blk[i + 1]
                        changed = True
                        break
                # `return <test>`  <->  `if <test>: return True` / `return False`
                ref_lines = ref_fn.get("_lines")
                if ref_lines is None:
                    ref_lines = ref_fn["_lines"] = {l.strip() for l in ref_fn.get("src", "").splitlines()}
                if isinstance(st, ast.Return) and isinstance(st.value, (ast.Compare, ast.BoolOp)) and _u(st) not in ref_lines \
                        and "return True" in ref_lines and "return False" in ref_lines:
                    k, nk = _key(st.value), _key(negate(st.value))
                    if k in stmt_keys or nk in stmt_keys:
                        pos = k in stmt_keys
                        test = st.value if pos else negate(st.value)
                        blk[i:i + 1] = [ast.copy_location(ast.If(test=test, body=[ast.Return(value=ast.Constant(value=pos))], orelse=[]), st),
                                        ast.copy_location(ast.Return(value=ast.Constant(value=not pos)), st)]
                        changed = True
                        break
                if isinstance(st, ast.If) and len(st.body) == 1 and isinstance(st.body[0], ast.Return) and isinstance(st.body[0].value, ast.Constant) \
                        and isinstance(st.body[0].value.value, bool) and isinstance(st.test, (ast.Compare, ast.BoolOp)):
                    other = st.orelse[0] if len(st.orelse) == 1 else (blk[i + 1] if not st.orelse and i + 1 < len(blk) else None)
                    if isinstance(other, ast.Return) and isinstance(other.value, ast.Constant) and isinstance(other.value.value, bool) \
                            and other.value.value != st.body[0].value.value and _key(st.test) not in stmt_keys and _key(negate(st.test)) not in stmt_keys:
                        val = st.test if st.body[0].value.value else negate(st.test)
                        for cand_ in (val, negate(negate(val))):
                            if _u(ast.Return(value=cand_)) in ref_lines:
                                blk[i] = ast.copy_location(ast.Return(value=cand_), st)
                                if not st.orelse:
                                    del blk[i + 1]
                                changed = True
                                break
                        if changed:
                            break
                # return next((e for v in it if c), default)  ->  for v in it: if c: return e / return default
                if isinstance(st, ast.Return) and isinstance(st.value, ast.Call) and _u(st.value.func) == "next" and len(st.value.args) == 2 and not st.value.keywords \
                        and isinstance(st.value.args[0], ast.GeneratorExp) and len(st.value.args[0].generators) == 1 and _is_literal(st.value.args[1]) \
                        and not st.value.args[0].generators[0].is_async:
                    ge = st.value.args[0]
                    g = ge.generators[0]
                    if any(l.startswith("for ") and l.endswith(f" in {_u(g.iter)}:") for l in ref_lines):
                        body = [ast.Return(value=ge.elt)]
                        for cnd in reversed(g.ifs):
                            body = [ast.If(test=cnd, body=body, orelse=[])]
                        loop = ast.For(target=g.target, iter=g.iter, body=body, orelse=[])
                        blk[i:i + 1] = [ast.copy_location(loop, st), ast.copy_location(ast.Return(value=st.value.args[1]), st)]
                        ast.fix_missing_locations(fn)
                        changed = True
                        break
                # x = next((e for v in it if c), default)  ->  for v in it: if c: x = e; break / else: x = default
                if isinstance(st, ast.Assign) and len(st.targets) == 1 and isinstance(st.value, ast.Call) and _u(st.value.func) == "next" and len(st.value.args) == 2 \
                        and not st.value.keywords and isinstance(st.value.args[0], ast.GeneratorExp) and len(st.value.args[0].generators) == 1 \
                        and _is_literal(st.value.args[1]) and not st.value.args[0].generators[0].is_async:
                    ge = st.value.args[0]
                    g = ge.generators[0]
                    if f"for {_u(g.target)} in {_u(g.iter)}:" in ref_lines or any(l.startswith("for ") and l.endswith(f" in {_u(g.iter)}:") for l in ref_lines):
                        import copy as _copy
                        inner = [ast.Assign(targets=[st.targets[0]], value=ge.elt), ast.Break()]
                        body = inner
                        for cnd in reversed(g.ifs):
                            body = [ast.If(test=cnd, body=body, orelse=[])]
                        loop = ast.For(target=g.target, iter=g.iter, body=body, orelse=[ast.Assign(targets=[_copy.deepcopy(st.targets[0])], value=st.value.args[1])])
                        blk[i] = ast.copy_location(loop, st)
                        ast.fix_missing_locations(loop)
                        changed = True
                        break
                # conditional-expression assignment where the reference has an if statement, and the reverse
                if isinstance(st, ast.Assign) and len(st.targets) == 1 and isinstance(st.value, ast.IfExp):
                    k, nk = _key(st.value.test), _key(negate(st.value.test))
                    if k not in expr_keys and nk not in expr_keys and (k in stmt_keys or nk in stmt_keys):
                        import copy as _copy
                        ie = st.value
                        new = ast.If(test=ie.test, body=[ast.Assign(targets=[st.targets[0]], value=ie.body)],
                                     orelse=[ast.Assign(targets=[_copy.deepcopy(st.targets[0])], value=ie.orelse)])
                        blk[i] = ast.copy_location(new, st)
                        changed = True
                        break
                if isinstance(st, ast.If) and len(st.body) == 1 and len(st.orelse) == 1 and all(isinstance(x, ast.Assign) and len(x.targets) == 1 for x in (st.body[0], st.orelse[0])) \
                        and _u(st.body[0].targets[0]) == _u(st.orelse[0].targets[0]) and isinstance(st.body[0].targets[0], (ast.Name, ast.Attribute)):
                    k, nk = _key(st.test), _key(negate(st.test))
                    if k not in stmt_keys and nk not in stmt_keys and (k in expr_keys or nk in expr_keys):
                        test, a, b = st.test, st.body[0].value, st.orelse[0].value
                        if k not in expr_keys:
                            test, a, b = negate(test), b, a
                        blk[i] = ast.copy_location(ast.Assign(targets=[st.body[0].targets[0]], value=ast.IfExp(test=test, body=a, orelse=b)), st)
                        changed = True
                        break
                # accumulate-by-append loop over a fresh list -> comprehension
                if isinstance(st, ast.Assign) and len(st.targets) == 1 and isinstance(st.targets[0], ast.Name) and isinstance(st.value, ast.List) and not st.value.elts \
                        and i + 1 < len(blk) and isinstance(blk[i + 1], ast.For) and not blk[i + 1].orelse and st.targets[0].id not in set(ref_fn.get("locals", ["*"])) \
                        and "*" not in ref_fn.get("locals", ["*"]):
                    x = st.targets[0].id
                    lp = blk[i + 1]
                    body = lp.body
                    cond = None
                    if len(body) == 1 and isinstance(body[0], ast.If) and not body[0].orelse and len(body[0].body) == 1:
                        cond, body = body[0].test, body[0].body
                    if len(body) == 1 and isinstance(body[0], ast.Expr) and isinstance(body[0].value, ast.Call) and _u(body[0].value.func) == f"{x}.append" \
                            and len(body[0].value.args) == 1 and not any(isinstance(n, ast.Name) and n.id == x for n in ast.walk(body[0].value.args[0])) \
                            and not any(isinstance(n, ast.Name) and n.id == x for n in ast.walk(lp.iter)):
                        comp = ast.ListComp(elt=body[0].value.args[0], generators=[ast.comprehension(target=lp.target, iter=lp.iter, ifs=[cond] if cond is not None else [], is_async=0)])
                        blk[i] = ast.copy_location(ast.Assign(targets=[ast.Name(id=x, ctx=ast.Store())], value=comp), st)
                        del blk[i + 1]
                        changed = True
                        break
            if changed:
                break
        if not changed:
            break
    ast.fix_missing_locations(fn)


def stmt_test_keys_of(fn: ast.FunctionDef) -> List[str]:
    return [_key(n.test) for n in ast.walk(fn) if isinstance(n, (ast.If, ast.While))]


def ifexp_test_keys_of(fn: ast.FunctionDef) -> List[str]:
    return [_key(n.test) for n in ast.walk(fn) if isinstance(n, ast.IfExp)]


# ----------------------------------------------------------------------------------------------- helpers that were inlined away
class _NoMatch(Exception):
    pass


def _unify(pat: ast.AST, tgt: ast.AST, pvars: Set[str], lvars: Set[str], bind: Dict[str, object]) -> None:
    """Structural match of a statement/expression of the reference helper against one of the current tree.  Parameters bind to
    arbitrary expressions, the helper's locals to (renamed) names; everything else must be identical."""
    if isinstance(pat, ast.Name):
        if pat.id in pvars and isinstance(pat.ctx, ast.Load):
            key = "p:" + pat.id
            txt = _u(tgt)
            if key in bind:
                if _u(bind[key]) != txt:
                    raise _NoMatch()
            else:
                bind[key] = tgt
            return
        if pat.id in lvars or pat.id in pvars:
            if not isinstance(tgt, ast.Name) or type(pat.ctx) is not type(tgt.ctx):
                raise _NoMatch()
            key = "l:" + pat.id
            if bind.get(key, tgt.id) != tgt.id:
                raise _NoMatch()
            if key not in bind and tgt.id in [v for k, v in bind.items() if k.startswith("l:")]:
                raise _NoMatch()
            bind[key] = tgt.id
            return
        if not isinstance(tgt, ast.Name) or tgt.id != pat.id:
            raise _NoMatch()
        return
    if type(pat) is not type(tgt):
        raise _NoMatch()
    if isinstance(pat, ast.Constant):
        if type(pat.value) is not type(tgt.value) or pat.value != tgt.value:
            raise _NoMatch()
        return
    for fld, pv in ast.iter_fields(pat):
        if fld in ("lineno", "col_offset", "end_lineno", "end_col_offset", "ctx", "type_comment"):
            continue
        tv = getattr(tgt, fld, None)
        if isinstance(pv, list):
            if not isinstance(tv, list) or len(pv) != len(tv):
                raise _NoMatch()
            for a, b in zip(pv, tv):
                if isinstance(a, ast.AST):
                    _unify(a, b, pvars, lvars, bind)
                elif a != b:
                    raise _NoMatch()
        elif isinstance(pv, ast.AST):
            if not isinstance(tv, ast.AST):
                raise _NoMatch()
            _unify(pv, tv, pvars, lvars, bind)
        elif pv != tv:
            raise _NoMatch()


def restore_inlined_helpers(tree: ast.Module, ref_mod: dict) -> None:
    """A function of the reference that no longer exists, whose body (with its parameters replaced by argument expressions and
    its locals possibly renamed) now stands in other functions of the same scope, is put back: the matched statements become a
    call again and the definition is re-inserted from the reference.  The inverse of inline-and-delete; by construction the
    result is equivalent to the tree on disk (the call runs exactly the statements it replaces)."""
    funcs = ref_mod.get("funcs", {})
    cur = set()

    def collect(node, prefix):
        for n in getattr(node, "body", []):
            if isinstance(n, ast.ClassDef):
                collect(n, prefix + n.name + ".")
            elif isinstance(n, ast.FunctionDef):
                q = prefix + n.name
                if any(isinstance(d, ast.Attribute) and d.attr == "setter" for d in n.decorator_list):
                    q += ".setter"
                cur.add(q)
                collect(n, q + ".")
    collect(tree, "")
    missing = [q for q in funcs if q not in cur and funcs[q].get("src") and not q.endswith(".setter")]
    for q in missing:
        parts = q.split(".")
        hname = parts[-1]
        if hname.startswith("__") and hname.endswith("__"):
            continue
        try:
            H = ast.parse(funcs[q]["src"]).body[0]
        except SyntaxError:
            continue
        if not isinstance(H, ast.FunctionDef) or any(isinstance(x, (ast.Yield, ast.YieldFrom, ast.Await)) for x in ast.walk(H)):
            continue
        deco = [_u(d) for d in H.decorator_list]
        if deco not in ([], ["staticmethod"]):
            continue
        # container and hosts
        container = tree
        ok = True
        for p in parts[:-1]:
            nxt = next((n for n in container.body if isinstance(n, (ast.ClassDef, ast.FunctionDef)) and n.name == p), None)
            if nxt is None:
                ok = False
                break
            container = nxt
        if not ok:
            continue
        is_method = isinstance(container, ast.ClassDef) and not deco
        ps = _params(H)
        if ps is None:
            continue
        if is_method:
            if not ps or ps[0] != "self":
                continue
            ps = ps[1:]
        body = _strip_doc(H.body)
        if not body:
            continue
        ret = None
        pat = body
        if isinstance(body[-1], ast.Return):
            ret = body[-1].value
            pat = body[:-1]
        if any(isinstance(x, ast.Return) for s_ in pat for x in ast.walk(s_)):
            continue                                  # internal returns cannot stand inline unchanged
        if not pat and ret is None:
            continue
        # second pattern: the helper with its own single-use temporaries folded in (an inliner often does that on the way)
        alt_pat = None
        try:
            from .loader import _inline_fresh_temps
            H2 = copy.deepcopy(H)
            _inline_fresh_temps(H2, set())
            b2_ = _strip_doc(H2.body)
            if b2_ and _u(ast.Module(body=b2_, type_ignores=[])) != _u(ast.Module(body=body, type_ignores=[])):
                r2_ = b2_[-1].value if isinstance(b2_[-1], ast.Return) else None
                p2_ = b2_[:-1] if isinstance(b2_[-1], ast.Return) else b2_
                if (ret is None) == (r2_ is None) and p2_:
                    alt_pat = (p2_, r2_, _assigned_names(H2) - set(_params(H2) or []))
        except Exception:  # noqa
            alt_pat = None
        pvars = set(ps)
        lvars = _assigned_names(H) - set(_params(H) or [])
        if isinstance(container, ast.ClassDef):
            hosts = [n for n in container.body if isinstance(n, ast.FunctionDef)]
        elif isinstance(container, ast.FunctionDef):
            hosts = [container] + [n for n in container.body if isinstance(n, ast.FunctionDef)]
        else:
            hosts = [n for n in tree.body if isinstance(n, ast.FunctionDef)] + [m for c in tree.body if isinstance(c, ast.ClassDef) for m in c.body if isinstance(m, ast.FunctionDef)]
        n_sites = 0
        variants = [(pat, ret, lvars)] + ([alt_pat] if alt_pat else [])
        for pat, ret, lvars in variants:
            if n_sites:
                break
            for host in hosts:
                progress = True
                while progress:
                    progress = False
                    for owner, fld, blk in blocks_of(host):
                        if isinstance(container, ast.FunctionDef) and host is container and owner is host and fld == "body":
                            pass
                        for i in range(len(blk)):
                            if i + len(pat) > len(blk):
                                break
                            bind: Dict[str, object] = {}
                            try:
                                for a, b in zip(pat, blk[i:i + len(pat)]):
                                    _unify(a, b, pvars, lvars, bind)
                            except _NoMatch:
                                continue
                            consumed = len(pat)
                            new_stmt = None

                            def call_of():
                                args = []
                                for p in ps:
                                    if "p:" + p in bind:
                                        args.append(copy.deepcopy(bind["p:" + p]))
                                    elif "l:" + p in bind:
                                        args.append(ast.Name(id=bind["l:" + p], ctx=ast.Load()))
                                    else:
                                        return None
                                if isinstance(container, ast.ClassDef):
                                    fn_ = ast.Attribute(value=ast.Name(id="self" if is_method else container.name, ctx=ast.Load()), attr=hname, ctx=ast.Load())
                                else:
                                    fn_ = ast.Name(id=hname, ctx=ast.Load())
                                return ast.Call(func=fn_, args=args, keywords=[])
                            if ret is None:
                                c = call_of()
                                if c is None:
                                    continue
                                new_stmt = ast.Expr(value=c)
                            else:
                                nxt = blk[i + consumed] if i + consumed < len(blk) else None
                                matched_value = False
                                if nxt is not None and isinstance(nxt, (ast.Assign, ast.Return, ast.Expr, ast.AugAssign)) and getattr(nxt, "value", None) is not None:
                                    b2 = dict(bind)
                                    try:
                                        _unify(ret, nxt.value, pvars, lvars, b2)
                                        bind = b2
                                        matched_value = True
                                    except _NoMatch:
                                        matched_value = False
                                c = call_of()
                                if c is None:
                                    continue
                                if matched_value:
                                    new_stmt = copy.copy(nxt)
                                    new_stmt.value = c
                                    consumed += 1
                                elif isinstance(ret, ast.Name) and ("l:" + ret.id) in bind and pat:
                                    new_stmt = ast.Assign(targets=[ast.Name(id=bind["l:" + ret.id], ctx=ast.Store())], value=c)
                                else:
                                    continue
                            # locals of the matched segment must not be needed outside it (except the returned one)
                            returned = bind.get("l:" + ret.id) if isinstance(ret, ast.Name) else None
                            seg = blk[i:i + consumed]
                            seg_nodes = {id(x) for s_ in seg for x in ast.walk(s_)}
                            escaped = False
                            for k, v in bind.items():
                                if k.startswith("l:") and v != returned and k[2:] not in pvars:
                                    if any(isinstance(x, ast.Name) and x.id == v and isinstance(x.ctx, ast.Load) and id(x) not in seg_nodes for x in ast.walk(host)):
                                        escaped = True
                            if escaped:
                                continue
                            ast.copy_location(new_stmt, blk[i])
                            blk[i:i + consumed] = [new_stmt]
                            n_sites += 1
                            progress = True
                            break
                        if progress:
                            break
        if n_sites:
            if isinstance(container, ast.FunctionDef):
                at = 1 if container.body and isinstance(container.body[0], ast.Expr) and isinstance(container.body[0].value, ast.Constant) else 0
                container.body.insert(at, H)
            else:
                container.body.append(H)
    ast.fix_missing_locations(tree)


def restore_flag_masks(tree: ast.Module, ref_mod: dict) -> bool:
    """A private two-valued attribute that the reference class keeps as a *mask* (`self.a = 0`, `self.a ^= K`, `x |= self.a`,
    `e & K != self.a`) and the current class keeps as a *bool* (`self.a = False`, `self.a = not self.a`, `if self.a: x |= K`,
    `K if self.a else 0`, `bool(e & K) != self.a`) denotes the same state under the bijection False <-> 0, True <-> K.  When EVERY
    occurrence of the attribute in the class is one of those bool forms (with the reference's own K), the class is rewritten to the
    mask form; a single occurrence of another shape leaves everything as it is (the rules then see the code as written)."""
    import re as _re
    want = {}
    for qn, f_ in ref_mod.get("funcs", {}).items():
        if "." not in qn:
            continue
        for a_, k_ in _re.findall(r"self\.(_[A-Za-z_0-9]*) \^= ([A-Z_][A-Z_0-9]*)\b", f_.get("src", "")):
            want.setdefault(qn.split(".")[0], {})[a_] = k_
    changed = False
    for cls in [n for n in tree.body if isinstance(n, ast.ClassDef) and n.name in want]:
        for attr, K in want[cls.name].items():
            def is_a(n):
                return isinstance(n, ast.Attribute) and n.attr == attr and isinstance(n.value, ast.Name) and n.value.id == "self"

            def is_k(n):
                return isinstance(n, ast.Name) and n.id == K
            occ = [n for n in ast.walk(cls) if is_a(n)]
            if not occ or any(isinstance(n, ast.AugAssign) and is_a(n.target) for n in ast.walk(cls)):
                continue
            covered = set()
            plan = []          # (kind, node)
            for n in ast.walk(cls):
                if isinstance(n, ast.Assign) and len(n.targets) == 1 and is_a(n.targets[0]):
                    v = n.value
                    if isinstance(v, ast.Constant) and v.value is False or isinstance(v, ast.Constant) and v.value is True:
                        plan.append(("const", n)); covered.add(id(n.targets[0]))
                    elif isinstance(v, ast.UnaryOp) and isinstance(v.op, ast.Not) and is_a(v.operand):
                        plan.append(("flip", n)); covered |= {id(n.targets[0]), id(v.operand)}
                elif isinstance(n, ast.If) and is_a(n.test) and not n.orelse and len(n.body) == 1 and isinstance(n.body[0], ast.AugAssign) \
                        and isinstance(n.body[0].op, ast.BitOr) and is_k(n.body[0].value):
                    plan.append(("ifor", n)); covered.add(id(n.test))
                elif isinstance(n, ast.IfExp) and is_a(n.test) and is_k(n.body) and isinstance(n.orelse, ast.Constant) and n.orelse.value == 0 and n.orelse.value is not False:
                    plan.append(("ifexp", n)); covered.add(id(n.test))
                elif isinstance(n, ast.Compare) and len(n.ops) == 1 and isinstance(n.ops[0], (ast.Eq, ast.NotEq)):
                    for x, y in ((n.left, n.comparators[0]), (n.comparators[0], n.left)):
                        if is_a(y) and isinstance(x, ast.Call) and isinstance(x.func, ast.Name) and x.func.id == "bool" and len(x.args) == 1 and not x.keywords \
                                and isinstance(x.args[0], ast.BinOp) and isinstance(x.args[0].op, ast.BitAnd) and (is_k(x.args[0].left) or is_k(x.args[0].right)):
                            plan.append(("cmp", n)); covered.add(id(y))
            if {id(o) for o in occ} != covered:
                continue

            class _T(ast.NodeTransformer):
                def visit_Assign(self, n):
                    self.generic_visit(n)
                    for kind, m in plan:
                        if m is n and kind == "const":
                            n.value = ast.Name(id=K, ctx=ast.Load()) if n.value.value is True else ast.Constant(value=0)
                        elif m is n and kind == "flip":
                            return ast.copy_location(ast.AugAssign(target=n.targets[0], op=ast.BitXor(), value=ast.Name(id=K, ctx=ast.Load())), n)
                    return n

                def visit_If(self, n):
                    self.generic_visit(n)
                    if any(m is n and kind == "ifor" for kind, m in plan):
                        st = n.body[0]
                        st.value = ast.Attribute(value=ast.Name(id="self", ctx=ast.Load()), attr=attr, ctx=ast.Load())
                        return ast.copy_location(st, n)
                    return n

                def visit_IfExp(self, n):
                    self.generic_visit(n)
                    if any(m is n and kind == "ifexp" for kind, m in plan):
                        return ast.copy_location(ast.Attribute(value=ast.Name(id="self", ctx=ast.Load()), attr=attr, ctx=ast.Load()), n)
                    return n

                def visit_Compare(self, n):
                    self.generic_visit(n)
                    if any(m is n and kind == "cmp" for kind, m in plan):
                        if isinstance(n.left, ast.Call):
                            n.left = n.left.args[0]
                        else:
                            n.comparators[0] = n.comparators[0].args[0]
                    return n
            _T().visit(cls)
            ast.fix_missing_locations(cls)
            changed = True
    return changed
