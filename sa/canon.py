"""Reference-guided canonicalisation (second stage of the loader's canonical form).

The rules identify roles by the names and shapes of the pinned tree.  A maintainer's behaviour-preserving refactoring
(extract/inline a helper or a local, name a magic number, reshape an if/else, turn a guard clause into a nested if) changes
those names and shapes without changing behaviour.  The passes below undo such refactorings *when, and only when, the
construct involved does not exist in the reference inventory of the pinned tree* (`sa/reference.json`, written by
tools/mklocalnames.py): the unchanged tree is a fix point by construction, and every rewrite is semantics-preserving, so
the rules afterwards analyse a program equivalent to the one on disk.

  inline_fresh_constants  a module- or class-level name the reference does not have, bound once to a literal, is replaced
                          by the literal where it is read
  inline_fresh_helpers    a function/method the reference does not have, called from the same module, is expanded at
                          its call sites (expression helpers anywhere; statement helpers at statement-level call sites)
  normalise_control_flow  an `if` whose test is unknown to the reference function but whose negation is known is turned
                          round (branches swapped; guard clause <-> nested form), chained comparisons are split
"""
from __future__ import annotations

import ast
import copy
from typing import Dict, List, Optional, Set

_EXITS = (ast.Return, ast.Raise, ast.Continue, ast.Break)


# ----------------------------------------------------------------------------------------------- small helpers
def _u(e) -> str:
    return ast.unparse(e)


def _is_literal(e: ast.expr) -> bool:
    if isinstance(e, ast.Constant):
        return isinstance(e.value, (int, float, str, bytes, bool, type(None)))
    if isinstance(e, ast.UnaryOp) and isinstance(e.op, (ast.USub, ast.Invert)) and isinstance(e.operand, ast.Constant):
        return True
    if isinstance(e, ast.Tuple):          # immutable values only: replacing a name by a list/dict display would un-share one object
        return all(_is_literal(x) for x in e.elts)
    if isinstance(e, ast.BinOp) and isinstance(e.op, (ast.LShift, ast.BitOr, ast.Add, ast.Sub, ast.Mult)):
        return _is_literal(e.left) and _is_literal(e.right)
    return False


def always_exits(stmts: List[ast.stmt]) -> bool:
    if not stmts:
        return False
    last = stmts[-1]
    if isinstance(last, _EXITS):
        return True
    if isinstance(last, ast.If) and last.orelse:
        return always_exits(last.body) and always_exits(last.orelse)
    return False


def blocks_of(fn: ast.AST):
    out = []

    def rec(node):
        for fld in ("body", "orelse", "finalbody"):
            b = getattr(node, fld, None)
            if isinstance(b, list) and b and isinstance(b[0], ast.stmt):
                out.append((node, fld, b))
                for st in b:
                    if not isinstance(st, (ast.FunctionDef, ast.ClassDef)):
                        rec(st)
        for h in getattr(node, "handlers", []) or []:
            out.append((h, "body", h.body))
            for st in h.body:
                rec(st)
    rec(fn)
    return out


# ----------------------------------------------------------------------------------------------- tests: negation, normal form
_INV = {ast.Eq: ast.NotEq, ast.NotEq: ast.Eq, ast.Lt: ast.GtE, ast.GtE: ast.Lt, ast.Gt: ast.LtE, ast.LtE: ast.Gt,
        ast.Is: ast.IsNot, ast.IsNot: ast.Is, ast.In: ast.NotIn, ast.NotIn: ast.In}
_MIRROR = {ast.Lt: ast.Gt, ast.Gt: ast.Lt, ast.LtE: ast.GtE, ast.GtE: ast.LtE, ast.Eq: ast.Eq, ast.NotEq: ast.NotEq}


def split_chain(e: ast.expr) -> ast.expr:
    """a < b <= c  ->  a < b and b <= c  (b is evaluated twice: only done when b is a name, attribute, constant or len())."""
    if isinstance(e, ast.Compare) and len(e.ops) > 1:
        mids = e.comparators[:-1]
        if all(isinstance(m, (ast.Name, ast.Attribute, ast.Constant)) or (isinstance(m, ast.Call) and _u(m.func) == "len") for m in mids):
            parts = []
            left = e.left
            for op, c in zip(e.ops, e.comparators):
                parts.append(ast.Compare(left=copy.deepcopy(left), ops=[op], comparators=[copy.deepcopy(c)]))
                left = c
            return ast.BoolOp(op=ast.And(), values=parts)
    return e


def negate(e: ast.expr) -> ast.expr:
    e = split_chain(e)
    if isinstance(e, ast.UnaryOp) and isinstance(e.op, ast.Not):
        return copy.deepcopy(e.operand)
    if isinstance(e, ast.Compare) and len(e.ops) == 1 and type(e.ops[0]) in _INV:
        return ast.Compare(left=copy.deepcopy(e.left), ops=[_INV[type(e.ops[0])]()], comparators=[copy.deepcopy(e.comparators[0])])
    if isinstance(e, ast.BoolOp):
        return ast.BoolOp(op=ast.Or() if isinstance(e.op, ast.And) else ast.And(), values=[negate(v) for v in e.values])
    return ast.UnaryOp(op=ast.Not(), operand=copy.deepcopy(e))


def _key(e: ast.expr) -> str:
    """Order-insensitive text of a test: comparisons mirrored to a fixed direction, and/or operands sorted, `not` pushed in."""
    e = split_chain(e)
    if isinstance(e, ast.UnaryOp) and isinstance(e.op, ast.Not):
        inner = e.operand
        if isinstance(inner, (ast.Compare, ast.BoolOp)) or (isinstance(inner, ast.UnaryOp) and isinstance(inner.op, ast.Not)):
            ng = negate(inner)
            if not (isinstance(ng, ast.UnaryOp) and isinstance(ng.op, ast.Not)):
                return _key(ng)
        return "not " + _key(inner)
    if isinstance(e, ast.BoolOp):
        parts = []
        for v in e.values:
            k = _key(v)
            # flatten nested same-op
            if isinstance(split_chain(v), ast.BoolOp) and type(split_chain(v).op) is type(e.op):
                parts += [_key(x) for x in split_chain(v).values]
            else:
                parts.append(k)
        return "(" + (" and " if isinstance(e.op, ast.And) else " or ").join(sorted(parts)) + ")"
    if isinstance(e, ast.Compare) and len(e.ops) == 1:
        l, r, op = _u(e.left), _u(e.comparators[0]), type(e.ops[0])
        if op in _MIRROR and (op in (ast.Gt, ast.GtE) or (op in (ast.Eq, ast.NotEq) and l > r)):
            l, r, op = r, l, _MIRROR[op]
        return f"{l} {op.__name__} {r}"
    if isinstance(e, ast.Call) and _u(e.func) == "bool" and len(e.args) == 1 and not e.keywords:
        return _key(e.args[0])
    return _u(e)


def test_keys_of(fn: ast.FunctionDef) -> List[str]:
    out = []
    for n in ast.walk(fn):
        if isinstance(n, (ast.If, ast.While)):
            out.append(_key(n.test))
        elif isinstance(n, ast.IfExp):
            out.append(_key(n.test))
    return out


def test_forms_of(fn: ast.FunctionDef) -> Dict[str, str]:
    """key of an if test -> 'guard' (no else, body always exits) | 'else' | 'plain' (first occurrence wins)."""
    out: Dict[str, str] = {}
    for n in ast.walk(fn):
        if isinstance(n, ast.If):
            form = "else" if n.orelse else ("guard" if always_exits(n.body) else "plain")
            out.setdefault(_key(n.test), form)
    return out


# ----------------------------------------------------------------------------------------------- fresh constants
def inline_fresh_constants(tree: ast.Module, ref_mod: dict) -> None:
    known = set(ref_mod.get("consts", []))
    known_cls = ref_mod.get("class_consts", {})
    fresh: Dict[str, ast.expr] = {}
    stores: Dict[str, int] = {}
    for n in ast.walk(tree):
        if isinstance(n, ast.Name) and isinstance(n.ctx, (ast.Store, ast.Del)):
            stores[n.id] = stores.get(n.id, 0) + 1
    for st in tree.body:
        tgt = val = None
        if isinstance(st, ast.Assign) and len(st.targets) == 1 and isinstance(st.targets[0], ast.Name):
            tgt, val = st.targets[0].id, st.value
        elif isinstance(st, ast.AnnAssign) and isinstance(st.target, ast.Name) and st.value is not None:
            tgt, val = st.target.id, st.value
        if tgt and tgt not in known and stores.get(tgt, 0) == 1 and _is_literal(val):
            fresh[tgt] = val
    fresh_cls: Dict[str, Dict[str, ast.expr]] = {}
    for c in [n for n in tree.body if isinstance(n, ast.ClassDef)]:
        kc = set(known_cls.get(c.name, []))
        for st in c.body:
            tgt = val = None
            if isinstance(st, ast.Assign) and len(st.targets) == 1 and isinstance(st.targets[0], ast.Name):
                tgt, val = st.targets[0].id, st.value
            elif isinstance(st, ast.AnnAssign) and isinstance(st.target, ast.Name) and st.value is not None:
                tgt, val = st.target.id, st.value
            if tgt and tgt not in kc and _is_literal(val):
                # never written through an instance or the class anywhere in the module
                written = any(isinstance(x, ast.Attribute) and x.attr == tgt and isinstance(x.ctx, (ast.Store, ast.Del)) for x in ast.walk(tree))
                if not written:
                    fresh_cls.setdefault(c.name, {})[tgt] = val
    if not fresh and not fresh_cls:
        return

    class _R(ast.NodeTransformer):
        def __init__(self):
            self.cls = None

        def visit_ClassDef(self, node):
            prev, self.cls = self.cls, node.name
            self.generic_visit(node)
            self.cls = prev
            return node

        def visit_Name(self, node):
            if isinstance(node.ctx, ast.Load) and node.id in fresh:
                return ast.copy_location(copy.deepcopy(fresh[node.id]), node)
            return node

        def visit_Attribute(self, node):
            self.generic_visit(node)
            if isinstance(node.ctx, ast.Load) and isinstance(node.value, ast.Name):
                if node.value.id == "self" and self.cls and node.attr in fresh_cls.get(self.cls, {}):
                    return ast.copy_location(copy.deepcopy(fresh_cls[self.cls][node.attr]), node)
                if node.value.id in fresh_cls and node.attr in fresh_cls[node.value.id]:
                    return ast.copy_location(copy.deepcopy(fresh_cls[node.value.id][node.attr]), node)
            return node
    # locals/params shadowing a fresh module constant: skip functions that bind the name
    shadowed = set()
    for f in [n for n in ast.walk(tree) if isinstance(n, (ast.FunctionDef, ast.Lambda))]:
        a = f.args
        for p in a.posonlyargs + a.args + a.kwonlyargs:
            if p.arg in fresh:
                shadowed.add(p.arg)
    for s in shadowed:
        fresh.pop(s, None)
    _R().visit(tree)
    # drop the now unused definitions so that rules enumerating constants do not see them
    tree.body = [st for st in tree.body if not ((isinstance(st, ast.Assign) and len(st.targets) == 1 and isinstance(st.targets[0], ast.Name) and st.targets[0].id in fresh)
                                                 or (isinstance(st, ast.AnnAssign) and isinstance(st.target, ast.Name) and st.target.id in fresh))]
    for c in [n for n in tree.body if isinstance(n, ast.ClassDef)]:
        fc = fresh_cls.get(c.name, {})
        if fc:
            c.body = [st for st in c.body if not ((isinstance(st, ast.Assign) and len(st.targets) == 1 and isinstance(st.targets[0], ast.Name) and st.targets[0].id in fc)
                                                   or (isinstance(st, ast.AnnAssign) and isinstance(st.target, ast.Name) and st.target.id in fc))] or [ast.Pass()]


# ----------------------------------------------------------------------------------------------- fresh helpers
def _params(fn: ast.FunctionDef) -> Optional[List[str]]:
    a = fn.args
    if a.vararg or a.kwarg or a.kwonlyargs or a.posonlyargs or a.defaults or a.kw_defaults:
        return None
    return [x.arg for x in a.args]


def _assigned_names(node: ast.AST) -> Set[str]:
    out = set()
    for n in ast.walk(node):
        if isinstance(n, ast.Name) and isinstance(n.ctx, (ast.Store, ast.Del)):
            out.add(n.id)
        elif isinstance(n, ast.ExceptHandler) and n.name:
            out.add(n.name)
        elif isinstance(n, ast.arg):
            out.add(n.arg)
    return out


def _simple_arg(e: ast.expr) -> bool:
    return isinstance(e, (ast.Name, ast.Constant)) or (isinstance(e, ast.Attribute) and _simple_arg(e.value))


class _Subst(ast.NodeTransformer):
    def __init__(self, mapping: Dict[str, ast.expr]):
        self.m = mapping

    def visit_Name(self, node):
        if node.id in self.m and isinstance(node.ctx, ast.Load):
            return ast.copy_location(copy.deepcopy(self.m[node.id]), node)
        return node


def _strip_doc(body: List[ast.stmt]) -> List[ast.stmt]:
    if body and isinstance(body[0], ast.Expr) and isinstance(body[0].value, ast.Constant) and isinstance(body[0].value.value, str):
        return body[1:]
    return body


def inline_fresh_helpers(tree: ast.Module, ref_mod: dict) -> None:
    ref_funcs = set(ref_mod.get("funcs", {}))
    for _round in range(4):
        changed = False
        # collect candidates: qualname -> (FunctionDef, owner container (Module/ClassDef), kind)
        cands = {}
        for st in tree.body:
            if isinstance(st, ast.FunctionDef) and st.name not in ref_funcs:
                cands[("", st.name)] = (st, tree, "function")
            if isinstance(st, ast.ClassDef):
                for m in st.body:
                    if isinstance(m, ast.FunctionDef) and f"{st.name}.{m.name}" not in ref_funcs:
                        deco = [_u(d) for d in m.decorator_list]
                        if deco in ([], ["staticmethod"]):
                            cands[(st.name, m.name)] = (m, st, "static" if deco else "method")
        for (cname, hname), (h, owner, kind) in list(cands.items()):
            if hname.startswith("__") and hname.endswith("__"):
                continue
            ps = _params(h)
            if ps is None:
                continue
            if any(isinstance(x, (ast.FunctionDef, ast.Lambda, ast.Yield, ast.YieldFrom, ast.Await, ast.Global, ast.Nonlocal)) and x is not h for x in ast.walk(h)):
                continue
            body = _strip_doc(h.body)
            if not body:
                continue
            if kind == "method":
                if not ps or ps[0] != "self":
                    continue
                ps = ps[1:]
            mangled = f"_{cname}{hname}" if cname and hname.startswith("__") and not hname.endswith("__") else None

            def is_call(c, inside_cls):
                if not isinstance(c, ast.Call) or c.keywords and any(k.arg is None for k in c.keywords):
                    return False
                f = c.func
                if kind == "function":
                    return isinstance(f, ast.Name) and f.id == hname
                if isinstance(f, ast.Attribute) and f.attr in (hname, mangled) and isinstance(f.value, ast.Name):
                    if f.value.id == "self" and inside_cls == cname:
                        return True
                    if f.value.id == cname and kind == "static":
                        return True
                return False
            # all call sites
            sites = []
            for c2 in [tree] + [n for n in tree.body if isinstance(n, ast.ClassDef)]:
                for fn in [n for n in c2.body if isinstance(n, ast.FunctionDef)]:
                    if fn is h:
                        continue
                    icls = c2.name if isinstance(c2, ast.ClassDef) else ""
                    for x in ast.walk(fn):
                        if is_call(x, icls):
                            sites.append((fn, x))
            other_refs = [x for x in ast.walk(tree) if isinstance(x, ast.Attribute) and x.attr in (hname, mangled) and not any(x is s[1].func for s in sites)] if kind != "function" else \
                [x for x in ast.walk(tree) if isinstance(x, ast.Name) and x.id == hname and isinstance(x.ctx, ast.Load) and not any(x is s[1].func for s in sites)]
            if not sites or other_refs:
                continue
            recursive = any(is_call(x, cname) for x in ast.walk(h))
            if recursive:
                continue
            hlocals = _assigned_names(h) - set(_params(h) or [])
            ok_all = True
            plans = []
            for fn, call in sites:
                # bind arguments
                amap = {}
                args = list(call.args)
                if len(args) + len(call.keywords) != len(ps):
                    ok_all = False
                    break
                for p, a in zip(ps, args):
                    amap[p] = a
                for k in call.keywords:
                    if k.arg not in ps or k.arg in amap:
                        ok_all = False
                        break
                    amap[k.arg] = k.value
                if not ok_all or set(amap) != set(ps):
                    ok_all = False
                    break
                plans.append((fn, call, amap))
            if not ok_all:
                continue
            # expression helper: single `return <expr>`
            expr_helper = len(body) == 1 and isinstance(body[0], ast.Return) and body[0].value is not None
            done_sites = 0
            site_no: Dict[int, int] = {}
            for fn, call, amap in plans:
                caller_names = _assigned_names(fn)
                site_no[id(fn)] = site_no.get(id(fn), 0) + 1
                nth = site_no[id(fn)]
                uses = {p: sum(1 for x in ast.walk(h) if isinstance(x, ast.Name) and x.id == p and isinstance(x.ctx, ast.Load)) for p in ps}
                reassigned = {p for p in ps if any(isinstance(x, ast.Name) and x.id == p and isinstance(x.ctx, ast.Store) for x in ast.walk(h))}
                pre = []
                sub = {}
                ren = {}
                bad = False
                loc0 = _stmt_of(fn, call)
                for p in ps:
                    a = amap[p]
                    if p in reassigned:
                        if isinstance(a, ast.Name) and a.id == p:
                            continue
                        # in-place update `x = h(x, ...)`: the parameter is the caller's variable under another name
                        if isinstance(a, ast.Name) and loc0 is not None and isinstance(loc0[2], ast.Assign) and len(loc0[2].targets) == 1 \
                                and isinstance(loc0[2].targets[0], ast.Name) and loc0[2].targets[0].id == a.id and a.id not in (_assigned_names(h) - {p}):
                            ren[p] = a.id
                            continue
                        bad = True
                        break
                    if _simple_arg(a) or uses[p] <= 1:
                        sub[p] = a
                    else:
                        if p in caller_names and not (isinstance(a, ast.Name) and a.id == p):
                            bad = True
                            break
                        pre.append(ast.Assign(targets=[ast.Name(id=p, ctx=ast.Store())], value=copy.deepcopy(a)))
                if bad:
                    continue
                if expr_helper:
                    if pre:
                        continue
                    new = _Subst(sub).visit(copy.deepcopy(body[0].value))
                    if _replace_node(fn, call, new):
                        done_sites += 1
                        changed = True
                    continue
                # statement helper: locate the statement holding the call
                loc = _stmt_of(fn, call)
                if loc is None:
                    continue
                blk, idx, st = loc
                # locals of the helper must not clobber live names of the caller
                targets = set()
                if isinstance(st, ast.Assign) and st.value is call:
                    targets = _assigned_names(st)
                hb = [_Subst(sub).visit(copy.deepcopy(s)) for s in body]
                if ren:
                    for s_ in hb:
                        for x in ast.walk(s_):
                            if isinstance(x, ast.Name) and x.id in ren:
                                x.id = ren[x.id]
                # locals of the helper: a further expansion in the same caller gets its own copies of them
                mine = hlocals - set(ren)
                if nth > 1 or (mine & caller_names) - targets:
                    suffix = f"__{nth}"
                    if any((nm + suffix) in caller_names for nm in mine):
                        continue
                    for s_ in hb:
                        for x in ast.walk(s_):
                            if isinstance(x, ast.Name) and x.id in mine and x.id not in {_u(t) for t in (st.targets if isinstance(st, ast.Assign) else [])}:
                                x.id = x.id + suffix
                            elif isinstance(x, ast.ExceptHandler) and x.name in mine:
                                x.name = x.name + suffix
                rets = [x for s in hb for x in ast.walk(s) if isinstance(x, ast.Return)]
                new_stmts = None
                if isinstance(st, ast.Return) and st.value is call:
                    new_stmts = pre + hb                    # tail position: the helper's returns are the caller's
                    if not always_exits(hb):
                        new_stmts.append(ast.Return(value=None))
                elif isinstance(st, ast.Expr) and st.value is call:
                    if not rets:
                        new_stmts = pre + hb
                    elif len(rets) == 1 and hb[-1] is rets[0]:
                        new_stmts = pre + hb[:-1] + ([ast.Expr(value=rets[0].value)] if rets[0].value is not None and not _simple_arg(rets[0].value) else [])
                    elif all(r.value is None for r in rets):
                        conv = _guard_to_nested(hb)
                        if conv is not None:
                            new_stmts = pre + conv
                elif isinstance(st, ast.Assign) and st.value is call and rets and all(r.value is not None for r in rets):
                    conv = _returns_to_assign(hb, st.targets)
                    if conv is not None:
                        new_stmts = pre + conv
                if new_stmts is None:
                    continue
                for s_ in new_stmts:
                    ast.copy_location(s_, st)
                blk[idx:idx + 1] = new_stmts or [ast.Pass()]
                done_sites += 1
                changed = True
            if done_sites == len(plans):
                owner.body = [x for x in owner.body if x is not h] or [ast.Pass()]
        if not changed:
            break
    ast.fix_missing_locations(tree)


def _returns_to_assign(stmts: List[ast.stmt], targets) -> Optional[List[ast.stmt]]:
    """Statement list in which every path ends in `return e` -> the same with `targets = e` instead (returns must be in tail
    position: last statement, or last statement of the branches of a trailing if; a guard `if c: ... return x` followed by
    more statements is first turned into if/else)."""
    if not stmts:
        return None
    out = []
    for i, s in enumerate(stmts):
        last = i == len(stmts) - 1
        has_ret = any(isinstance(x, ast.Return) for x in ast.walk(s))
        if not has_ret:
            if last:
                return None                 # falls off the end: would return None
            out.append(s)
            continue
        if isinstance(s, ast.Return):
            if not last or s.value is None:
                return None
            same = len(targets) == 1 and (_u(targets[0]) == _u(s.value) or (isinstance(targets[0], ast.Tuple) and isinstance(s.value, ast.Tuple)
                                                                                and [_u(x) for x in targets[0].elts] == [_u(x) for x in s.value.elts]))
            if not same:
                out.append(ast.Assign(targets=[copy.deepcopy(t) for t in targets], value=s.value))
            return out
        if isinstance(s, ast.If):
            body, orelse = s.body, s.orelse
            rest = stmts[i + 1:]
            if not orelse and always_exits(body) and rest:
                orelse, rest = rest, []
            if rest:
                return None
            b = _returns_to_assign(body, targets)
            o = _returns_to_assign(orelse, targets) if orelse else None
            if b is None or o is None:
                return None
            out.append(ast.If(test=s.test, body=b or [ast.Pass()], orelse=o))
            return out
        return None
    return None


def _guard_to_nested(stmts: List[ast.stmt]) -> Optional[List[ast.stmt]]:
    """Body whose only returns are bare `return` in guard clauses `if c: return` at its top level -> nested ifs."""
    out = []
    for i, s in enumerate(stmts):
        if isinstance(s, ast.If) and len(s.body) == 1 and isinstance(s.body[0], ast.Return) and s.body[0].value is None and not s.orelse:
            rest = _guard_to_nested(stmts[i + 1:])
            if rest is None:
                return None
            if rest:
                out.append(ast.If(test=negate(s.test), body=rest, orelse=[]))
            return out
        if isinstance(s, ast.Return) and s.value is None and i == len(stmts) - 1:
            return out
        if any(isinstance(x, ast.Return) for x in ast.walk(s)):
            return None
        out.append(s)
    return out


def _replace_node(root: ast.AST, target: ast.AST, new: ast.AST) -> bool:
    for parent in ast.walk(root):
        for fld, val in ast.iter_fields(parent):
            if val is target:
                setattr(parent, fld, new)
                return True
            if isinstance(val, list):
                for i, v in enumerate(val):
                    if v is target:
                        val[i] = new
                        return True
    return False


def _stmt_of(fn: ast.FunctionDef, node: ast.AST):
    for _owner, _fld, blk in blocks_of(fn):
        for i, st in enumerate(blk):
            if isinstance(st, (ast.Expr, ast.Assign, ast.Return)) and getattr(st, "value", None) is node:
                return blk, i, st
    return None


# ----------------------------------------------------------------------------------------------- control flow
def normalise_control_flow(fn: ast.FunctionDef, ref_tests: List[str], ref_forms: Optional[Dict[str, str]] = None) -> None:
    """Turn round ifs whose test the reference function does not have but whose negation it has; then give an if whose
    test is known the form (guard clause / if-else) it has in the reference where that is a mere re-arrangement."""
    ref = set(ref_tests)
    if not ref:
        return
    ref_forms = ref_forms or {}
    for _round in range(6):
        changed = False
        for owner, fld, blk in blocks_of(fn):
            for i, st in enumerate(blk):
                if not isinstance(st, ast.If):
                    continue
                k = _key(st.test)
                if k in ref:
                    continue
                nk = _key(negate(st.test))
                rest = blk[i + 1:]
                is_fn_tail = owner is fn and fld == "body"
                is_loop_tail = isinstance(owner, (ast.For, ast.While)) and fld == "body"
                elif_chain = len(st.orelse) == 1 and isinstance(st.orelse[0], ast.If)
                if nk not in ref:
                    # `if a: if b: X`  <->  `if a and b: X`
                    if not st.orelse and len(st.body) == 1 and isinstance(st.body[0], ast.If) and not st.body[0].orelse:
                        merged = ast.BoolOp(op=ast.And(), values=[st.test, st.body[0].test])
                        if _key(merged) in ref:
                            st.test = merged
                            st.body = st.body[0].body
                            changed = True
                            break
                    t_ = split_chain(st.test)
                    if not st.orelse and isinstance(t_, ast.BoolOp) and isinstance(t_.op, ast.And) and len(t_.values) >= 2 and _key(t_.values[0]) in ref:
                        rest_t = t_.values[1] if len(t_.values) == 2 else ast.BoolOp(op=ast.And(), values=t_.values[1:])
                        if _key(rest_t) in ref:
                            st.test = t_.values[0]
                            st.body = [ast.copy_location(ast.If(test=rest_t, body=st.body, orelse=[]), st)]
                            changed = True
                            break
                    continue
                if st.orelse and not elif_chain:
                    st.test = negate(st.test)
                    st.body, st.orelse = st.orelse, st.body
                    changed = True
                elif not st.orelse and always_exits(st.body) and rest:
                    # guard clause: `if c: exit` + rest  ->  `if not c: rest [else: exit]`
                    exit_stmts = st.body
                    plain = len(exit_stmts) == 1 and ((isinstance(exit_stmts[0], ast.Return) and exit_stmts[0].value is None and is_fn_tail)
                                                      or (isinstance(exit_stmts[0], ast.Continue) and is_loop_tail))
                    st.test = negate(st.test)
                    st.body = rest
                    st.orelse = [] if plain else exit_stmts
                    del blk[i + 1:]
                    changed = True
                elif not st.orelse and not rest and (is_fn_tail or is_loop_tail) and not always_exits(st.body):
                    # nested form at the end of the function/loop body: `if c: body`  ->  `if not c: return/continue` + body
                    ex = ast.Return(value=None) if is_fn_tail else ast.Continue()
                    body = st.body
                    st.test = negate(st.test)
                    st.body = [ast.copy_location(ex, st)]
                    blk.extend(body)
                    changed = True
                if changed:
                    break
            if changed:
                break
        if not changed:
            # second phase: same test, other arrangement
            for owner, fld, blk in blocks_of(fn):
                for i, st in enumerate(blk):
                    if not isinstance(st, ast.If):
                        continue
                    want = ref_forms.get(_key(st.test))
                    rest = blk[i + 1:]
                    is_fn_tail = owner is fn and fld == "body"
                    is_loop_tail = isinstance(owner, (ast.For, ast.While)) and fld == "body"
                    elif_chain = len(st.orelse) == 1 and isinstance(st.orelse[0], ast.If)
                    if want == "guard" and st.orelse and not elif_chain:
                        if always_exits(st.body):
                            blk[i + 1:i + 1] = st.orelse
                            st.orelse = []
                            changed = True
                        elif not rest and (is_fn_tail or is_loop_tail):
                            st.body.append(ast.copy_location(ast.Return(value=None) if is_fn_tail else ast.Continue(), st))
                            blk.extend(st.orelse)
                            st.orelse = []
                            changed = True
                    elif want == "else" and not st.orelse and always_exits(st.body) and rest:
                        st.orelse = rest
                        del blk[i + 1:]
                        changed = True
                    if changed:
                        break
                if changed:
                    break
        if not changed:
            break
    ast.fix_missing_locations(fn)
