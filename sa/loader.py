"""E1 loader: parse every module of /repo/canopen, build module/class/function tables.

Nothing of the repository is imported or executed: files are read as text and parsed with `ast`.
"""
from __future__ import annotations

import ast
import os
from dataclasses import dataclass, field
from typing import Dict, List, Optional


class AnalysisError(Exception):
    """The analyser cannot see what it needs (anchor vanished, shape unrecognised): exit 2."""

    def __init__(self, rule: str, msg: str):
        super().__init__(f"{rule}: {msg}")
        self.rule = rule
        self.msg = msg


@dataclass
class Func:
    name: str
    qualname: str
    node: ast.FunctionDef
    mod: "Mod"
    cls: Optional["Cls"] = None
    kind: str = "method"          # method | getter | setter | static | function | nested

    @property
    def key(self) -> str:
        return f"{self.mod.rel}:{self.qualname}"

    @property
    def params(self) -> List[str]:
        a = self.node.args
        return [x.arg for x in a.posonlyargs + a.args + a.kwonlyargs]

    def loc(self, node: Optional[ast.AST] = None) -> str:
        n = node if node is not None else self.node
        return f"{self.mod.rel}:{getattr(n, 'lineno', self.node.lineno)}"


@dataclass
class Cls:
    name: str
    node: ast.ClassDef
    mod: "Mod"
    consts: Dict[str, ast.expr] = field(default_factory=dict)
    methods: Dict[str, Func] = field(default_factory=dict)

    @property
    def base_names(self) -> List[str]:
        out = []
        for b in self.node.bases:
            if isinstance(b, ast.Name):
                out.append(b.id)
            elif isinstance(b, ast.Attribute):
                out.append(b.attr)
        return out


@dataclass
class Mod:
    name: str               # canopen.sdo.client
    rel: str                # canopen/sdo/client.py
    path: str
    src: str
    tree: ast.Module
    consts: Dict[str, ast.expr] = field(default_factory=dict)
    multi_assigned: set = field(default_factory=set)
    classes: Dict[str, Cls] = field(default_factory=dict)
    funcs: Dict[str, Func] = field(default_factory=dict)
    imports: Dict[str, tuple] = field(default_factory=dict)   # local -> ('mod', name) | ('sym', mod, sym)
    stars: List[str] = field(default_factory=list)

    def line(self, lineno: int) -> str:
        return self.src.splitlines()[lineno - 1]


def _const_like(e: ast.expr) -> bool:
    """A literal, or a name spelled in capitals (the repository's way of naming constants)."""
    if isinstance(e, ast.Constant):
        return True
    if isinstance(e, ast.UnaryOp) and isinstance(e.operand, ast.Constant):
        return True
    if isinstance(e, ast.Name):
        return e.id.isupper() and len(e.id) > 1
    if isinstance(e, ast.Attribute):
        return e.attr.isupper() and len(e.attr) > 1 and not (isinstance(e.value, ast.Name) and e.value.id == "self")
    return False


def _strip_tail(body, kind) -> None:
    """A bare `return` (or `continue`) in tail position of the function (loop body) does nothing: drop it, also at the end of
    the branches of a trailing if."""
    while body and isinstance(body[-1], kind) and getattr(body[-1], "value", None) is None and len(body) > 1:
        body.pop()
    if body and isinstance(body[-1], ast.If):
        for b in (body[-1].body, body[-1].orelse):
            _strip_tail(b, kind)
            if len(b) == 1 and isinstance(b[0], kind) and getattr(b[0], "value", None) is None and b is body[-1].orelse:
                b.clear()


def _tail_loop_returns(body) -> None:
    """In a loop (without else) that is the last thing the function does, a bare `return` is a `break`."""
    if not body:
        return
    last = body[-1]
    if isinstance(last, ast.With):
        _tail_loop_returns(last.body)
    elif isinstance(last, ast.If):
        _tail_loop_returns(last.body)
        _tail_loop_returns(last.orelse)
    elif isinstance(last, (ast.For, ast.While)) and not last.orelse:
        def rec(stmts):
            for k, st in enumerate(stmts):
                if isinstance(st, ast.Return) and st.value is None:
                    stmts[k] = ast.copy_location(ast.Break(), st)
                elif isinstance(st, (ast.If, ast.With, ast.Try)):
                    for fld in ("body", "orelse", "finalbody"):
                        rec(getattr(st, fld, []) or [])
                    for h in getattr(st, "handlers", []) or []:
                        rec(h.body)
        rec(last.body)


class _Canonical(ast.NodeTransformer):
    """Semantics-preserving normal form applied to every module before any rule looks at it, so that the rules do not
    depend on spellings that do not matter:
      * logging statements are dropped (no property speaks about log output),
      * arithmetic on literals only is folded (1 << 4 -> 16),
      * `x = x op y` becomes `x op= y`,
      * in comparisons and commutative operations a constant stands on the right (`C == x` -> `x == C`, `C | x` -> `x | C`).
    """

    _SWAP = {ast.Lt: ast.Gt, ast.Gt: ast.Lt, ast.LtE: ast.GtE, ast.GtE: ast.LtE, ast.Eq: ast.Eq, ast.NotEq: ast.NotEq}
    _BIN = {ast.Add: lambda a, b: a + b, ast.Sub: lambda a, b: a - b, ast.Mult: lambda a, b: a * b, ast.LShift: lambda a, b: a << b,
            ast.RShift: lambda a, b: a >> b, ast.BitOr: lambda a, b: a | b, ast.BitAnd: lambda a, b: a & b, ast.BitXor: lambda a, b: a ^ b,
            ast.FloorDiv: lambda a, b: a // b}

    def _strip(self, body):
        out = []
        for st in body:
            if isinstance(st, ast.Expr) and isinstance(st.value, ast.Call):
                f = st.value.func
                if isinstance(f, ast.Attribute) and isinstance(f.value, ast.Name) and f.value.id in ("logger", "logging") \
                        and f.attr in ("debug", "info", "warning", "warn", "error", "exception", "critical", "log"):
                    continue
            if isinstance(st, ast.AugAssign) and isinstance(st.op, ast.BitOr) and isinstance(st.target, ast.Name) and isinstance(st.value, ast.BinOp) and isinstance(st.value.op, ast.BitOr) \
                    and not any(isinstance(x, (ast.Call, ast.NamedExpr, ast.Await, ast.Yield)) or (isinstance(x, ast.Name) and x.id == st.target.id) for x in ast.walk(st.value)):
                # x |= A | B  ->  x |= A; x |= B   (A, B without calls and not reading x)
                terms, todo = [], [st.value]
                while todo:
                    e = todo.pop()
                    if isinstance(e, ast.BinOp) and isinstance(e.op, ast.BitOr):
                        todo += [e.right, e.left]
                    else:
                        terms.append(e)
                for e in terms:
                    out.append(ast.copy_location(ast.AugAssign(target=ast.Name(id=st.target.id, ctx=ast.Store()), op=ast.BitOr(), value=e), st))
                continue
            if isinstance(st, ast.Assign) and len(st.targets) == 1 and isinstance(st.targets[0], ast.Name) and isinstance(st.value, ast.Name) \
                    and (st.targets[0].id == st.value.id or st.targets[0].id == "_"):
                continue                    # x = x, _ = x
            if isinstance(st, ast.Assign) and len(st.targets) == 1 and isinstance(st.targets[0], ast.Subscript) and isinstance(st.targets[0].slice, ast.Slice) \
                    and isinstance(st.value, ast.Constant) and st.value.value in (b"", "") and st.targets[0].slice.step is None \
                    and isinstance(st.targets[0].slice.lower, ast.Constant) and isinstance(st.targets[0].slice.upper, ast.Constant) \
                    and st.targets[0].slice.lower.value == st.targets[0].slice.upper.value and isinstance(st.targets[0].value, ast.Name):
                continue                    # buf[n:n] = b'' changes nothing
            if isinstance(st, ast.Expr) and isinstance(st.value, ast.Constant):
                continue                    # docstrings and stray literals
            if isinstance(st, ast.Pass) and len(body) > 1:
                continue
            if isinstance(st, ast.If) and isinstance(st.test, ast.Constant) and isinstance(st.test.value, bool):
                out += self._strip(st.body if st.test.value else st.orelse) if (st.body if st.test.value else st.orelse) else []
                continue                    # `if True:` / `if False:` (left behind by an inlined helper with literal arguments)
            if isinstance(st, ast.If):
                if st.orelse and all(isinstance(x, ast.Pass) for x in st.orelse):
                    st.orelse = []
                # `if c: if c: X`  ->  `if c: X`  (c without calls; nothing between the two tests)
                if st.body and isinstance(st.body[0], ast.If) and not st.body[0].orelse and ast.dump(st.body[0].test) == ast.dump(st.test) \
                        and not any(isinstance(x, (ast.Call, ast.NamedExpr, ast.Await, ast.Yield)) for x in ast.walk(st.test)):
                    st.body[0:1] = st.body[0].body
                if not st.orelse and all(isinstance(x, ast.Pass) for x in st.body) and not any(isinstance(x, (ast.Call, ast.NamedExpr, ast.Await, ast.Yield)) for x in ast.walk(st.test)):
                    continue                # a test without calls that selects nothing
            if isinstance(st, ast.Expr) and (isinstance(st.value, ast.Name) or (isinstance(st.value, ast.Tuple) and all(isinstance(x, ast.Name) for x in st.value.elts))):
                continue                    # an expression statement that only names locals does nothing
            if isinstance(st, ast.Assign) and len(st.targets) == 1 and isinstance(st.targets[0], ast.Tuple) and isinstance(st.value, ast.Tuple) \
                    and len(st.targets[0].elts) == len(st.value.elts) and all(_pure_chain(x) and isinstance(x, ast.Attribute) for x in st.targets[0].elts) \
                    and all(isinstance(v, (ast.Name, ast.Constant)) for v in st.value.elts) \
                    and len({ast.unparse(t) for t in st.targets[0].elts}) == len(st.targets[0].elts):
                # `self.a, self.b = x, y` with plain names on the right: two attribute stores in the same order
                for t, v in zip(st.targets[0].elts, st.value.elts):
                    out.append(ast.copy_location(ast.Assign(targets=[t], value=v), st))
                continue
            if isinstance(st, ast.Assign) and len(st.targets) == 1 and isinstance(st.targets[0], ast.Tuple) and isinstance(st.value, ast.Tuple) \
                    and len(st.targets[0].elts) == len(st.value.elts) and all(isinstance(x, ast.Name) for x in st.targets[0].elts) \
                    and not all(isinstance(x, ast.Name) for x in st.value.elts) and not any(isinstance(x, ast.Starred) for x in st.value.elts) \
                    and not ({t.id for t in st.targets[0].elts} & {x.id for v in st.value.elts for x in ast.walk(v) if isinstance(x, ast.Name)}) \
                    and len({t.id for t in st.targets[0].elts}) == len(st.targets[0].elts):
                # `a, b = (x.p, y.q)` with no target read on the right: two assignments in the same order
                for t, v in zip(st.targets[0].elts, st.value.elts):
                    out.append(ast.copy_location(ast.Assign(targets=[t], value=v), st))
                continue
            if isinstance(st, ast.Assign) and len(st.targets) == 1 and isinstance(st.targets[0], ast.Tuple) and isinstance(st.value, ast.Tuple) \
                    and len(st.targets[0].elts) == len(st.value.elts) and all(isinstance(x, ast.Name) for x in st.targets[0].elts + st.value.elts):
                # `a, b, c = (x, b, c)`: the self-assignments go; what is left is sequential when no target is also a source
                pairs = [(t, v) for t, v in zip(st.targets[0].elts, st.value.elts) if t.id != v.id]
                if not ({t.id for t, _ in pairs} & {v.id for _, v in pairs}) and len({t.id for t, _ in pairs}) == len(pairs):
                    for t, v in pairs:
                        out.append(ast.copy_location(ast.Assign(targets=[t], value=v), st))
                    continue
            out.append(st)
        if not out:
            p = ast.Pass()
            ast.copy_location(p, body[0]) if body else None
            out = [p]
        return out

    def generic_visit(self, node):
        node = super().generic_visit(node)
        for fld in ("body", "orelse", "finalbody"):
            b = getattr(node, fld, None)
            if isinstance(b, list) and b and isinstance(b[0], ast.stmt):
                stripped = self._strip(b)
                if fld != "body" and len(stripped) == 1 and isinstance(stripped[0], ast.Pass) and not any(isinstance(x, ast.Pass) for x in b):
                    stripped = []        # an else/finally that only logged disappears
                setattr(node, fld, stripped)
        return node

    def visit_FunctionDef(self, node):
        node = self.generic_visit(node)
        # inside functions an annotated assignment is the plain assignment (annotations of locals and attributes are not
        # evaluated for effect by any property); a bare annotation `x: T` binds nothing and is dropped
        class _Ann(ast.NodeTransformer):
            def visit_FunctionDef(self, n):     # nested functions were already handled by their own visit
                return n

            def visit_ClassDef(self, n):
                return n

            def visit_AnnAssign(self, n):
                if n.value is None:
                    return ast.copy_location(ast.Pass(), n)
                return ast.copy_location(ast.Assign(targets=[n.target], value=n.value), n)
        for fld in ("body",):
            node.body = [_Ann().visit(st) if not isinstance(st, (ast.FunctionDef, ast.ClassDef)) else st for st in node.body]
        _strip_tail(node.body, ast.Return)
        _tail_loop_returns(node.body)
        # a name bound by tuple unpacking and never read is `_`
        if not any(isinstance(x, (ast.Global, ast.Nonlocal)) for x in ast.walk(node)):
            loaded = {x.id for x in ast.walk(node) if isinstance(x, ast.Name) and isinstance(x.ctx, ast.Load)}
            for x in ast.walk(node):
                if isinstance(x, ast.Assign) and len(x.targets) == 1 and isinstance(x.targets[0], ast.Tuple):
                    for e in x.targets[0].elts:
                        if isinstance(e, ast.Name) and e.id not in loaded and e.id != "_":
                            if sum(1 for y in ast.walk(node) if isinstance(y, ast.Name) and y.id == e.id) == 1:
                                e.id = "_"
        for lp in ast.walk(node):
            if isinstance(lp, (ast.For, ast.While)):
                _strip_tail(lp.body, ast.Continue)
        return node

    def visit_BinOp(self, node):
        self.generic_visit(node)
        l, r = node.left, node.right
        if isinstance(node.op, (ast.BitOr, ast.BitXor)):
            # x | 0, 0 | x  (the identity left behind when a flag term folds away)
            if isinstance(r, ast.Constant) and type(r.value) is int and r.value == 0:
                return l
            if isinstance(l, ast.Constant) and type(l.value) is int and l.value == 0:
                return r
        if isinstance(l, ast.Constant) and isinstance(r, ast.Constant) and type(l.value) is int and type(r.value) is int and type(node.op) in self._BIN:
            try:
                if isinstance(node.op, (ast.LShift,)) and r.value > 64:
                    return node
                return ast.copy_location(ast.Constant(value=self._BIN[type(node.op)](l.value, r.value)), node)
            except Exception:  # noqa
                return node
        if isinstance(node.op, (ast.BitOr, ast.BitAnd, ast.Add, ast.Mult, ast.BitXor)) and _const_like(l) and not _const_like(r) \
                and not any(isinstance(x, ast.Constant) and isinstance(x.value, (str, bytes)) for x in (l, r)):
            node.left, node.right = r, l
            l, r = node.left, node.right
        # (x & M) >> k  ->  (x >> k) & (M >> k)   for integer literals M, k: the same bits either way (field extraction written
        # mask-then-shift or shift-then-mask)
        if isinstance(node.op, ast.RShift) and isinstance(r, ast.Constant) and type(r.value) is int and 0 <= r.value <= 64 and isinstance(l, ast.BinOp) \
                and isinstance(l.op, ast.BitAnd) and isinstance(l.right, ast.Constant) and type(l.right.value) is int and l.right.value >= 0:
            return ast.copy_location(ast.BinOp(left=ast.BinOp(left=l.left, op=ast.RShift(), right=ast.Constant(value=r.value)), op=ast.BitAnd(),
                                               right=ast.Constant(value=l.right.value >> r.value)), node)
        # <bytes literal> * n  ->  the literal (short ones only)
        if isinstance(node.op, ast.Mult) and isinstance(l, ast.Constant) and isinstance(l.value, bytes) and isinstance(r, ast.Constant) and type(r.value) is int and 0 <= r.value * len(l.value) <= 64:
            return ast.copy_location(ast.Constant(value=l.value * r.value), node)
        return node

    def visit_Slice(self, node):
        self.generic_visit(node)
        # x[0:n] -> x[:n]
        if isinstance(node.lower, ast.Constant) and type(node.lower.value) is int and node.lower.value == 0:
            node.lower = None
        return node

    @staticmethod
    def _truth(e):
        """The same test without bool() wrappers (in a truth context bool(x) is x)."""
        if isinstance(e, ast.Call) and isinstance(e.func, ast.Name) and e.func.id == "bool" and len(e.args) == 1 and not e.keywords:
            return _Canonical._truth(e.args[0])
        if isinstance(e, ast.BoolOp):
            e.values = [_Canonical._truth(v) for v in e.values]
        elif isinstance(e, ast.UnaryOp) and isinstance(e.op, ast.Not):
            e.operand = _Canonical._truth(e.operand)
        return e

    def visit_While(self, node):
        node = self.generic_visit(node)
        node.test = self._truth(node.test)
        return node

    def visit_IfExp(self, node):
        node = self.generic_visit(node)
        node.test = self._truth(node.test)
        if isinstance(node.test, ast.Constant) and isinstance(node.test.value, bool):
            return node.body if node.test.value else node.orelse
        return node

    def visit_Assert(self, node):
        node = self.generic_visit(node)
        node.test = self._truth(node.test)
        return node

    def visit_If(self, node):
        node = self.generic_visit(node)
        node.test = self._truth(node.test)
        if node.orelse and all(isinstance(x, ast.Pass) for x in node.orelse):
            node.orelse = []
        if node.orelse and all(isinstance(x, ast.Pass) for x in node.body):
            # `if c: pass` / `else: X`  ->  `if not c: X`
            node.test = self.visit_UnaryOp(ast.copy_location(ast.UnaryOp(op=ast.Not(), operand=node.test), node.test)) if not (isinstance(node.test, ast.UnaryOp) and isinstance(node.test.op, ast.Not)) else node.test.operand
            node.body, node.orelse = node.orelse, []
        # `if not c: A else: B` -> `if c: B else: A` (an elif chain in the else part is left alone)
        if isinstance(node.test, ast.UnaryOp) and isinstance(node.test.op, ast.Not) and node.orelse \
                and not (len(node.orelse) == 1 and isinstance(node.orelse[0], ast.If)):
            node.test = node.test.operand
            node.body, node.orelse = node.orelse, node.body
        return node

    _NEG = {ast.Eq: ast.NotEq, ast.NotEq: ast.Eq, ast.Is: ast.IsNot, ast.IsNot: ast.Is, ast.In: ast.NotIn, ast.NotIn: ast.In}

    def visit_UnaryOp(self, node):
        self.generic_visit(node)
        # `not a == b` -> `a != b` (and is/in likewise; not for the order comparisons, which need not be total)
        if isinstance(node.op, ast.Not) and isinstance(node.operand, ast.Constant) and isinstance(node.operand.value, bool):
            return ast.copy_location(ast.Constant(value=not node.operand.value), node)
        if isinstance(node.op, ast.Not) and isinstance(node.operand, ast.Compare) and len(node.operand.ops) == 1 and type(node.operand.ops[0]) in self._NEG:
            c = node.operand
            return ast.copy_location(ast.Compare(left=c.left, ops=[self._NEG[type(c.ops[0])]()], comparators=c.comparators), node)
        return node

    def visit_BoolOp(self, node):
        self.generic_visit(node)
        # constant operands (left by inlined literals and defaults): `False or x` -> x, `True and x` -> x, `True or x` -> True,
        # `False and x` -> False (x is not evaluated in the last two); a constant in a later position stays (the value of the
        # expression is then the earlier operand's or the constant)
        if any(isinstance(v, ast.Constant) and (v.value is None or isinstance(v.value, bool)) for v in node.values[:-1]):
            vals = []
            is_or = isinstance(node.op, ast.Or)
            for i, v in enumerate(node.values):
                if isinstance(v, ast.Constant) and (v.value is None or isinstance(v.value, bool)) and i < len(node.values) - 1:
                    if bool(v.value) == is_or:
                        vals.append(v)           # decides the expression: nothing after it is evaluated
                        break
                    continue                     # neutral element
                vals.append(v)
            if len(vals) == 1:
                return ast.copy_location(vals[0], node)
            node.values = vals
        # isinstance(o, A) or isinstance(o, B)  ->  isinstance(o, (A, B))
        if isinstance(node.op, ast.Or):
            def isi(v):
                return isinstance(v, ast.Call) and isinstance(v.func, ast.Name) and v.func.id == "isinstance" and len(v.args) == 2 and not v.keywords
            out = []
            for v in node.values:
                if out and isi(v) and isi(out[-1]) and ast.unparse(v.args[0]) == ast.unparse(out[-1].args[0]):
                    prev = out[-1]
                    a = prev.args[1].elts if isinstance(prev.args[1], ast.Tuple) else [prev.args[1]]
                    b = v.args[1].elts if isinstance(v.args[1], ast.Tuple) else [v.args[1]]
                    out[-1] = ast.copy_location(ast.Call(func=prev.func, args=[prev.args[0], ast.Tuple(elts=list(a) + list(b), ctx=ast.Load())], keywords=[]), prev)
                else:
                    out.append(v)
            if len(out) == 1:
                return out[0]
            node.values = out
        return node

    def visit_ClassDef(self, node):
        self._classes = getattr(self, "_classes", []) + [node.name]
        try:
            return self.generic_visit(node)
        finally:
            self._classes = self._classes[:-1]

    def visit_Call(self, node):
        self.generic_visit(node)
        # f(*(a, b)) -> f(a, b)
        if any(isinstance(a, ast.Starred) and isinstance(a.value, (ast.Tuple, ast.List)) for a in node.args):
            args = []
            for a in node.args:
                if isinstance(a, ast.Starred) and isinstance(a.value, (ast.Tuple, ast.List)) and not any(isinstance(x, ast.Starred) for x in a.value.elts):
                    args += a.value.elts
                else:
                    args.append(a)
            node.args = args
        if isinstance(node.func, ast.Name) and node.func.id == "len" and len(node.args) == 1 and not node.keywords and isinstance(node.args[0], ast.Constant) \
                and isinstance(node.args[0].value, (bytes, str)):
            return ast.copy_location(ast.Constant(value=len(node.args[0].value)), node)
        # bytearray(b'\x00\x00...')  ->  bytearray(n): n zero bytes either way
        if isinstance(node.func, ast.Name) and node.func.id == "bytearray" and len(node.args) == 1 and not node.keywords and isinstance(node.args[0], ast.Constant) \
                and isinstance(node.args[0].value, bytes) and node.args[0].value and not any(node.args[0].value):
            node.args = [ast.Constant(value=len(node.args[0].value))]
        # list() / dict() / tuple() / bytes() / str() without arguments are the empty literals
        if isinstance(node.func, ast.Name) and not node.args and not node.keywords and node.func.id in ("list", "dict", "tuple", "bytes", "str"):
            lit = {"list": ast.List(elts=[], ctx=ast.Load()), "dict": ast.Dict(keys=[], values=[]), "tuple": ast.Tuple(elts=[], ctx=ast.Load()),
                   "bytes": ast.Constant(value=b""), "str": ast.Constant(value="")}[node.func.id]
            return ast.copy_location(lit, node)
        # super(C, self) inside class C -> super()
        cl = getattr(self, "_classes", [])
        if isinstance(node.func, ast.Name) and node.func.id == "super" and len(node.args) == 2 and not node.keywords and cl \
                and isinstance(node.args[0], ast.Name) and node.args[0].id == cl[-1] and isinstance(node.args[1], ast.Name) and node.args[1].id == "self":
            node.args = []
        return node

    def visit_ExceptHandler(self, node):
        node = self.generic_visit(node)
        # `except E as name:` with the name never read in the handler binds nothing anybody sees
        if node.name and not any(isinstance(x, ast.Name) and x.id == node.name for st in node.body for x in ast.walk(st)):
            node.name = None
        return node

    def visit_Compare(self, node):
        self.generic_visit(node)
        # q.qsize() > 0 / != 0 / >= 1  ->  not q.empty();   q.qsize() == 0 / < 1 / <= 0  ->  q.empty()   (queue.Queue: the same statement
        # about the same moment, both "approximate" in the same way under concurrency)
        if len(node.ops) == 1 and isinstance(node.left, ast.Call) and isinstance(node.left.func, ast.Attribute) and node.left.func.attr == "qsize" and not node.left.args \
                and isinstance(node.comparators[0], ast.Constant) and type(node.comparators[0].value) is int:
            k_, op_ = node.comparators[0].value, node.ops[0]
            nonempty = (isinstance(op_, ast.Gt) and k_ == 0) or (isinstance(op_, ast.NotEq) and k_ == 0) or (isinstance(op_, ast.GtE) and k_ == 1)
            isempty = (isinstance(op_, ast.Eq) and k_ == 0) or (isinstance(op_, ast.Lt) and k_ == 1) or (isinstance(op_, ast.LtE) and k_ == 0)
            if nonempty or isempty:
                call = ast.Call(func=ast.Attribute(value=node.left.func.value, attr="empty", ctx=ast.Load()), args=[], keywords=[])
                return ast.copy_location(call if isempty else ast.UnaryOp(op=ast.Not(), operand=call), node)
        # (a, b) == (c, d)  ->  a == c and b == d   (and != -> or) for operands that are names, attributes or literals
        if len(node.ops) == 1 and isinstance(node.ops[0], (ast.Eq, ast.NotEq)) and isinstance(node.left, ast.Tuple) and isinstance(node.comparators[0], ast.Tuple) \
                and len(node.left.elts) == len(node.comparators[0].elts) >= 1 \
                and all(isinstance(x, ast.Constant) or _pure_chain(x) for x in node.left.elts + node.comparators[0].elts):
            parts = [ast.Compare(left=a, ops=[type(node.ops[0])()], comparators=[b]) for a, b in zip(node.left.elts, node.comparators[0].elts)]
            parts = [self.visit_Compare(p_) for p_ in parts]
            if len(parts) == 1:
                return ast.copy_location(parts[0], node)
            return ast.copy_location(ast.BoolOp(op=ast.And() if isinstance(node.ops[0], ast.Eq) else ast.Or(), values=parts), node)
        # a comparison of numeric literals only (left by a default put in place of its parameter): its value
        if all(isinstance(x, ast.Constant) and isinstance(x.value, (int, float)) and not isinstance(x.value, bool) for x in [node.left] + node.comparators) \
                and all(isinstance(o, (ast.Eq, ast.NotEq, ast.Lt, ast.LtE, ast.Gt, ast.GtE)) for o in node.ops):
            import operator as _op
            fn_ = {ast.Eq: _op.eq, ast.NotEq: _op.ne, ast.Lt: _op.lt, ast.LtE: _op.le, ast.Gt: _op.gt, ast.GtE: _op.ge}
            vals_ = [node.left.value] + [c.value for c in node.comparators]
            return ast.copy_location(ast.Constant(value=all(fn_[type(o)](a, b) for o, a, b in zip(node.ops, vals_, vals_[1:]))), node)
        if len(node.ops) == 1 and isinstance(node.ops[0], (ast.Is, ast.IsNot)):
            l_, r_ = node.left, node.comparators[0]
            # identity of two literals None/True/False, or of a name with itself
            if isinstance(l_, ast.Constant) and isinstance(r_, ast.Constant) and all(x.value is None or isinstance(x.value, bool) for x in (l_, r_)):
                same = l_.value is r_.value
                return ast.copy_location(ast.Constant(value=same if isinstance(node.ops[0], ast.Is) else not same), node)
            if isinstance(l_, ast.Name) and isinstance(r_, ast.Name) and l_.id == r_.id:
                return ast.copy_location(ast.Constant(value=isinstance(node.ops[0], ast.Is)), node)
        if len(node.ops) == 1 and type(node.ops[0]) in self._SWAP and _const_like(node.left) and not _const_like(node.comparators[0]):
            node.left, node.comparators, node.ops = node.comparators[0], [node.left], [self._SWAP[type(node.ops[0])]()]
        return node

    def visit_Assign(self, node):
        self.generic_visit(node)
        if len(node.targets) == 1 and isinstance(node.targets[0], (ast.Name, ast.Attribute)) and isinstance(node.value, ast.BinOp):
            t = ast.unparse(node.targets[0])
            v = node.value
            if ast.unparse(v.left) == t and isinstance(v.op, (ast.BitOr, ast.BitAnd, ast.BitXor, ast.Add, ast.Sub, ast.Mult, ast.LShift, ast.RShift)):
                return ast.copy_location(ast.AugAssign(target=node.targets[0], op=v.op, value=v.right), node)
            if ast.unparse(v.right) == t and isinstance(v.op, (ast.BitOr, ast.BitAnd, ast.BitXor, ast.Add, ast.Mult)) \
                    and not any(isinstance(x, ast.Constant) and isinstance(x.value, (str, bytes)) for x in ast.walk(v)):
                return ast.copy_location(ast.AugAssign(target=node.targets[0], op=v.op, value=v.left), node)
        return node


def _binding_shapes(fn: ast.FunctionDef):
    """[(shape, [bound local names])] for every binding statement of fn in source order.  The shape is the statement
    with every identifier blanked, so a pure renaming leaves it unchanged."""
    out = []

    class Blank(ast.NodeTransformer):
        def visit_Name(self, n):
            return ast.copy_location(ast.Name(id="_", ctx=n.ctx), n)

        def visit_arg(self, n):
            n.arg = "_"
            return n

    def targets(t):
        if isinstance(t, ast.Name):
            return [t.id]
        if isinstance(t, (ast.Tuple, ast.List)):
            return [x for e in t.elts for x in targets(e)]
        if isinstance(t, ast.Starred):
            return targets(t.value)
        return []

    def rec(body):
        for st in body:
            names = []
            if isinstance(st, ast.Assign):
                for t in st.targets:
                    names += targets(t)
            elif isinstance(st, (ast.AnnAssign, ast.AugAssign)):
                names += targets(st.target)
            elif isinstance(st, ast.For):
                names += targets(st.target)
            elif isinstance(st, ast.With):
                for it in st.items:
                    if it.optional_vars is not None:
                        names += targets(it.optional_vars)
            if names:
                head = st
                if isinstance(st, (ast.For, ast.With)):
                    head = copy.copy(st)
                    head.body = [ast.Pass()]
                    if isinstance(st, ast.For):
                        head.orelse = []
                import copy as _c
                shape = ast.dump(Blank().visit(_c.deepcopy(head)))
                out.append((shape, names))
            if isinstance(st, (ast.FunctionDef, ast.ClassDef)):
                continue
            for fld in ("body", "orelse", "finalbody"):
                sub = getattr(st, fld, None)
                if isinstance(sub, list) and sub and isinstance(sub[0], ast.stmt):
                    rec(sub)
            for h in getattr(st, "handlers", []) or []:
                if h.name:
                    out.append(("except-as", [h.name]))
                rec(h.body)
    import copy
    rec(fn.body)
    return out


def _exclusive_names(fn: ast.FunctionDef, a_name: str, b_name: str) -> bool:
    """All occurrences of a_name lie in one branch of some if statement and all of b_name in the other."""
    occ_a = [x for x in ast.walk(fn) if isinstance(x, ast.Name) and x.id == a_name]
    occ_b = [x for x in ast.walk(fn) if isinstance(x, ast.Name) and x.id == b_name]
    if not occ_a or not occ_b:
        return False
    for node in ast.walk(fn):
        if isinstance(node, ast.If) and node.orelse:
            in_body = {id(x) for st_ in node.body for x in ast.walk(st_)}
            in_else = {id(x) for st_ in node.orelse for x in ast.walk(st_)}
            for s1, s2 in ((in_body, in_else), (in_else, in_body)):
                if all(id(x) in s1 for x in occ_a) and all(id(x) in s2 for x in occ_b):
                    return True
    return False


def _role_score(fn: ast.FunctionDef, ref_exprs: set, t: str, x: str) -> int:
    """How many expressions of fn that mention local t read as an expression of the reference once t is called x."""
    import copy as _copy
    n = 0
    for h in ast.walk(fn):
        if isinstance(h, (ast.If, ast.While)) and isinstance(h.test, ast.Name) and h.test.id == t:
            if f"if {x}" in ref_exprs or f"if not {x}" in ref_exprs:
                n += 1                  # a flag tested by name
            continue
        if isinstance(h, ast.Assign) and len(h.targets) == 1 and isinstance(h.targets[0], ast.Name) and h.targets[0].id == t and isinstance(h.value, ast.Constant):
            if f"{x} = {ast.unparse(h.value)}" in ref_exprs:
                n += 1                  # the same literal assigned
            continue
        if isinstance(h, (ast.Call, ast.BinOp, ast.Compare, ast.Subscript, ast.Attribute, ast.AugAssign, ast.Return)) and any(isinstance(y, ast.Name) and y.id == t for y in ast.walk(h)):
            c = _copy.deepcopy(h)
            for y in ast.walk(c):
                if isinstance(y, ast.Name) and y.id == t:
                    y.id = x
            if ast.unparse(c) in ref_exprs and ast.unparse(h) not in ref_exprs:
                n += 1
            elif isinstance(c, ast.BinOp) and isinstance(c.left, ast.Name) and c.left.id == x and isinstance(c.right, ast.Constant) \
                    and ast.unparse(ast.AugAssign(target=ast.Name(id=x, ctx=ast.Store()), op=c.op, value=c.right)) in ref_exprs:
                n += 1                  # `t & K` where the reference updates x in place (`x &= K`)
            elif isinstance(c, ast.Compare):
                # a comparison also counts in its mirrored or negated spelling (`x != 0` for the reference's `x == 0`)
                from . import canon as _cn
                try:
                    ks = {_cn._key(c), _cn._key(_cn.negate(c))}
                    hs = {_cn._key(h), _cn._key(_cn.negate(h))}
                except RecursionError:
                    continue
                if ks & _ref_keys(ref_exprs) and not (hs & _ref_keys(ref_exprs)):
                    n += 1
    return n


_REF_KEYS_CACHE: dict = {}


def _ref_keys(ref_exprs) -> set:
    """Order-insensitive keys of the comparisons among the reference expressions (cached per expression set)."""
    k = id(ref_exprs)
    if k in _REF_KEYS_CACHE and _REF_KEYS_CACHE[k][0] is ref_exprs:
        return _REF_KEYS_CACHE[k][1]
    from . import canon as _cn
    out = set()
    for t in ref_exprs:
        try:
            e = ast.parse(t, mode="eval").body
        except SyntaxError:
            continue
        if isinstance(e, ast.Compare):
            out.add(_cn._key(e))
    _REF_KEYS_CACHE[k] = (ref_exprs, out)
    return out


def _rename_locals(fn: ast.FunctionDef, template, ref_fn=None) -> None:
    """Alpha-rename locals of fn to the names recorded in `template` (list of (shape, names) of the reference tree) when
    their binding statements line up; semantics-preserving, refuses on any conflict."""
    import difflib
    cur = _binding_shapes(fn)
    if not cur or not template:
        return
    a = [s for s, _ in template]
    b = [s for s, _ in cur]
    mapping = {}
    cands = []
    known_names = {x for _s, ns in template for x in ns}
    for blk in difflib.SequenceMatcher(None, a, b, autojunk=False).get_matching_blocks():
        for k in range(blk.size):
            tn, cn = template[blk.a + k][1], cur[blk.b + k][1]
            if len(tn) != len(cn):
                continue
            for x, y in zip(tn, cn):
                if y in known_names:
                    continue                     # a name the reference tree uses keeps its meaning (statements may just have moved)
                if y != x:
                    cands.append((y, x))
    # bindings the order-preserving match left over: a shape that occurs once among the left-overs on either side pairs up
    m_a, m_b = set(), set()
    for blk in difflib.SequenceMatcher(None, a, b, autojunk=False).get_matching_blocks():
        for k in range(blk.size):
            m_a.add(blk.a + k)
            m_b.add(blk.b + k)
    rest_a = [i for i in range(len(a)) if i not in m_a]
    rest_b = [i for i in range(len(b)) if i not in m_b]
    for i in rest_a:
        same_a = [k for k in rest_a if a[k] == a[i]]
        same_b = [k for k in rest_b if b[k] == a[i]]
        if len(same_a) == 1 and len(same_b) == 1:
            tn, cn = template[i][1], cur[same_b[0]][1]
            if len(tn) == len(cn):
                for x, y in zip(tn, cn):
                    if y in known_names or y == x:
                        continue
                    cands.append((y, x))        # (a reference name that is bound elsewhere in the function is accepted below only
                                                #  when the two live in opposite branches of an if)
    # several candidates for one name (or one reference name wanted by several locals): the one whose uses read as the
    # reference's decides; a tie leaves the names alone
    ref_exprs = set()
    if ref_fn is not None and ref_fn.get("src"):
        try:
            rtree = ast.parse(ref_fn["src"])
            ref_exprs = {ast.unparse(n) for n in ast.walk(rtree) if isinstance(n, (ast.Call, ast.BinOp, ast.Compare, ast.Subscript, ast.Attribute, ast.AugAssign, ast.Return))}
            ref_exprs |= {ast.unparse(n) for n in ast.walk(rtree) if isinstance(n, ast.Assign) and isinstance(n.value, ast.Constant)}
            ref_exprs |= {"if " + ast.unparse(n.test) for n in ast.walk(rtree) if isinstance(n, (ast.If, ast.While))}
        except SyntaxError:
            ref_exprs = set()
    pairs = sorted(set(cands))
    by_y, by_x = {}, {}
    for y, x in pairs:
        by_y.setdefault(y, set()).add(x)
        by_x.setdefault(x, set()).add(y)
    score = {(y, x): (_role_score(fn, ref_exprs, y, x) if ref_exprs else 0) for y, x in pairs}
    for y, x in pairs:
        rivals = [(y2, x2) for (y2, x2) in pairs if (y2 == y or x2 == x) and (y2, x2) != (y, x)]
        if ref_exprs and score[(y, x)] == 0:
            continue                    # a matching binding shape alone (`_ = _`, `_ = len(_)`) is not evidence enough
        if not rivals:
            mapping[y] = x
        elif all(score[(y, x)] > score[r] for r in rivals):
            mapping[y] = x
    if not mapping:
        return
    params = {p.arg for p in fn.args.posonlyargs + fn.args.args + fn.args.kwonlyargs}
    if fn.args.vararg:
        params.add(fn.args.vararg.arg)
    if fn.args.kwarg:
        params.add(fn.args.kwarg.arg)
    used = {n.id for n in ast.walk(fn) if isinstance(n, ast.Name)}
    if any(isinstance(n, (ast.Global, ast.Nonlocal)) for n in ast.walk(fn)):
        return

    def exclusive(a_name, b_name) -> bool:
        """All occurrences of a_name lie in one branch of some if statement and all of b_name in the other."""
        for node in ast.walk(fn):
            if isinstance(node, ast.If) and node.orelse:
                in_body = {id(x) for st_ in node.body for x in ast.walk(st_)}
                in_else = {id(x) for st_ in node.orelse for x in ast.walk(st_)}
                occ_a = [x for x in ast.walk(fn) if isinstance(x, ast.Name) and x.id == a_name]
                occ_b = [x for x in ast.walk(fn) if isinstance(x, ast.Name) and x.id == b_name]
                for s1, s2 in ((in_body, in_else), (in_else, in_body)):
                    if occ_a and occ_b and all(id(x) in s1 for x in occ_a) and all(id(x) in s2 for x in occ_b):
                        return True
        return False
    for old in list(mapping):
        new = mapping[old]
        if old in params or new in params:
            del mapping[old]
        elif new in used and new not in mapping and not exclusive(old, new):
            del mapping[old]
    if not mapping:
        return
    if len(set(mapping.values())) != len(mapping):
        return
    # nested functions and lambdas: the renaming is applied uniformly to every Name below fn, which keeps closures and
    # shadowing intact as long as no parameter of a nested function carries one of the names involved
    involved = set(mapping) | set(mapping.values())
    for n in ast.walk(fn):
        if isinstance(n, (ast.FunctionDef, ast.Lambda)) and n is not fn:
            a_ = n.args
            pn = {x.arg for x in a_.posonlyargs + a_.args + a_.kwonlyargs} | ({a_.vararg.arg} if a_.vararg else set()) | ({a_.kwarg.arg} if a_.kwarg else set())
            if pn & involved or (isinstance(n, ast.FunctionDef) and n.name in involved):
                return
    for n in ast.walk(fn):
        if isinstance(n, ast.Name) and n.id in mapping:
            n.id = mapping[n.id]
        elif isinstance(n, ast.ExceptHandler) and n.name in mapping:
            n.name = mapping[n.name]


_PURE_BUILTINS = {"len", "int", "bool", "bytes", "bytearray", "min", "max", "abs", "tuple", "list", "divmod", "float", "str", "hex", "super", "isinstance", "range", "sorted", "round"}
_SIMPLE_STMTS = (ast.Assign, ast.AugAssign, ast.Expr, ast.Return, ast.Raise, ast.Assert, ast.Delete)


def _fn_blocks(fn: ast.FunctionDef):
    out = []

    def rec(node):
        for fld in ("body", "orelse", "finalbody"):
            b = getattr(node, fld, None)
            if isinstance(b, list) and b and isinstance(b[0], ast.stmt):
                out.append(b)
                for st in b:
                    if not isinstance(st, (ast.FunctionDef, ast.ClassDef)):
                        rec(st)
        for h in getattr(node, "handlers", []) or []:
            out.append(h.body)
            for st in h.body:
                rec(st)
    rec(fn)
    return out


def _eval_events(node: ast.AST, stop: ast.AST):
    """Side-effect-relevant events of evaluating `node` (an expression or simple statement) in Python's order, up to the
    evaluation of `stop`: list of ('call'|'load', node).  Returns (events, reached)."""
    ev = []

    class _Stop(Exception):
        pass

    def go(e):
        if e is None:
            return
        if e is stop:
            raise _Stop()
        if isinstance(e, ast.Call):
            go(e.func)
            for a in e.args:
                go(a)
            for k in e.keywords:
                go(k.value)
            ev.append(("call", e))
        elif isinstance(e, ast.Attribute):
            go(e.value)
            if isinstance(e.ctx, ast.Load) and not isinstance(e.value, ast.Constant):      # a method of a literal reads no state
                ev.append(("load", e))
        elif isinstance(e, ast.Subscript):
            go(e.value)
            go(e.slice)
            if isinstance(e.ctx, ast.Load):
                ev.append(("load", e))
        elif isinstance(e, ast.BinOp):
            go(e.left)
            go(e.right)
        elif isinstance(e, ast.Compare):
            go(e.left)
            for c in e.comparators:
                go(c)
        elif isinstance(e, ast.BoolOp):
            for v in e.values:
                go(v)
        elif isinstance(e, ast.UnaryOp):
            go(e.operand)
        elif isinstance(e, ast.IfExp):
            go(e.test)
            go(e.body)
            go(e.orelse)
        elif isinstance(e, (ast.Tuple, ast.List, ast.Set)):
            for x in e.elts:
                go(x)
        elif isinstance(e, ast.Dict):
            for k, v in zip(e.keys, e.values):
                go(k)
                go(v)
        elif isinstance(e, ast.JoinedStr):
            for v in e.values:
                go(v)
        elif isinstance(e, ast.FormattedValue):
            go(e.value)
            go(e.format_spec)
        elif isinstance(e, (ast.ListComp, ast.SetComp, ast.GeneratorExp, ast.DictComp)):
            # evaluation order inside a comprehension, approximated: iterable, conditions, element (per generator)
            for g in e.generators:
                go(g.iter)
                for c in g.ifs:
                    go(c)
            if isinstance(e, ast.DictComp):
                go(e.key)
                go(e.value)
            else:
                go(e.elt)
        elif isinstance(e, ast.Starred):
            go(e.value)
        elif isinstance(e, ast.Slice):
            go(e.lower)
            go(e.upper)
            go(e.step)
        elif isinstance(e, ast.Assign):
            go(e.value)
            for t in e.targets:
                go(t)
        elif isinstance(e, ast.AugAssign):
            go(e.target)
            go(e.value)
        elif isinstance(e, (ast.Return, ast.Expr)):
            go(e.value)
        elif isinstance(e, ast.Raise):
            go(e.exc)
            go(e.cause)
        elif isinstance(e, ast.Assert):
            go(e.test)
            go(e.msg)
        elif isinstance(e, ast.Delete):
            for t in e.targets:
                go(t)
    try:
        go(node)
    except _Stop:
        return ev, True
    return ev, False


def _alias_chain(e: ast.AST) -> bool:
    """name.attr.attr[const]...: reading it again gives the same object as long as nobody stores to those attributes/items."""
    return isinstance(e, ast.Name) or (isinstance(e, ast.Attribute) and _alias_chain(e.value)) \
        or (isinstance(e, ast.Subscript) and isinstance(e.slice, ast.Constant) and _alias_chain(e.value))


def _pure_chain(e: ast.AST) -> bool:
    return isinstance(e, ast.Name) or (isinstance(e, ast.Attribute) and _pure_chain(e.value))


def _replace_in(root: ast.AST, target: ast.AST, new: ast.AST) -> bool:
    for parent in ast.walk(root):
        for fld, val in ast.iter_fields(parent):
            if val is target:
                setattr(parent, fld, ast.copy_location(new, target))
                return True
            if isinstance(val, list):
                for k, v in enumerate(val):
                    if v is target:
                        val[k] = ast.copy_location(new, target)
                        return True
    return False


_PURE_STATIC = {"int.from_bytes", "int.to_bytes", "bytes.fromhex", "struct.pack", "struct.unpack", "struct.unpack_from", "struct.calcsize",
                "math.ceil", "math.floor", "math.log", "math.log2", "math.pow", "math.sqrt", "time.time", "time.monotonic", "re.sub", "re.match", "re.search", "re.fullmatch", "re.compile"}


_PURE_SELF_METHODS: set = set()          # per module: methods that store nothing and call nothing harmful (set by canonicalise)


def _pure_self_methods(tree: ast.Module) -> set:
    """Names of methods that, in every class of the module that defines them, store no attribute or item, declare no global and
    call only harmless things or other such methods of self (fixed point)."""
    defs = {}
    for m in [n for n in tree.body if isinstance(n, ast.FunctionDef)]:
        defs.setdefault("::" + m.name, []).append(m)          # module-level functions, called by bare name
    for outer in [n for n in ast.walk(tree) if isinstance(n, ast.FunctionDef)]:
        for m in [n for n in ast.walk(outer) if isinstance(n, ast.FunctionDef) and n is not outer]:
            defs.setdefault("::" + m.name, []).append(m)      # nested functions, called by bare name inside their function
    for c in [n for n in tree.body if isinstance(n, ast.ClassDef)]:
        for m in [n for n in c.body if isinstance(n, ast.FunctionDef)]:
            defs.setdefault(m.name, []).append(m)
            defs.setdefault(f"_{c.name}{m.name}" if m.name.startswith("__") and not m.name.endswith("__") else m.name, []).append(m)
    pure = set(defs)
    global _PURE_SELF_METHODS
    changed = True
    while changed:
        changed = False
        _PURE_SELF_METHODS = pure
        for name in sorted(pure):
            ok = True
            for m in defs[name]:
                if any(isinstance(x, (ast.Attribute, ast.Subscript)) and isinstance(x.ctx, (ast.Store, ast.Del)) for x in ast.walk(m)) \
                        or any(isinstance(x, (ast.Global, ast.Nonlocal, ast.Yield, ast.YieldFrom, ast.Await, ast.Delete)) for x in ast.walk(m)) or _harmful_calls(m):
                    ok = False
            if not ok:
                pure = pure - {name}
                changed = True
                break
    _PURE_SELF_METHODS = pure
    return pure


_REPO_CALLS: dict = {"sites": {}, "bare": set()}
_REPO_INTS: dict = {}             # whole package: module-level integer constant name -> value (names bound once, to one value)
_REPO_STRUCTS: dict = {}          # whole package: module-level struct.Struct constant name -> format
_REPO_OBSERVATIONAL: set = set()  # whole package: attribute names nothing reads except to report them (effects.observational_attrs_of)
_REPO_WRITES: dict = {}          # whole package: function/method name -> set of attribute names it may store (transitively, by name), or None = anything


_GENERIC_METHODS = {"get", "update", "append", "extend", "add", "pop", "clear", "items", "keys", "values", "join", "format", "pack", "unpack", "unpack_from", "pack_into",
                    "put", "wait", "notify_all", "notify", "acquire", "release", "sleep", "time", "remove", "insert", "index", "count", "copy", "setdefault", "sort",
                    "read", "write", "close", "flush", "seek", "tell", "readline", "encode", "decode", "strip", "rstrip", "lstrip", "split", "replace", "upper", "lower",
                    "startswith", "endswith", "ljust", "rjust", "hex", "to_bytes", "from_bytes", "tobytes", "empty", "get_nowait", "put_nowait", "send", "recv", "start", "stop",
                    "debug", "info", "warning", "warn", "error", "exception", "critical", "log", "group", "match", "sub", "search", "shutdown", "send_periodic", "modify_data",
                    "has_section", "has_option", "options", "sections", "add_section", "set", "getint", "read_file", "process", "final"}


def _repo_effects(pkg_dir: str, root: str, overlay) -> None:
    """Name-based effect summary of the whole package, from the raw syntax trees: for every function or method name the attribute
    names that a function of that name may store, through calls of functions/methods of the package followed by name.  A call of
    something that is not a function of the package, a pure built-in or a method of an external library object (a local callable,
    a parameter: callbacks) makes the summary None = may store anything.  Methods of names the package does not define are taken
    not to store the package's attributes."""
    global _REPO_WRITES
    trees = []
    for dirpath, dirnames, filenames in os.walk(pkg_dir):
        dirnames[:] = sorted(d for d in dirnames if d != "__pycache__")
        for fn_ in sorted(filenames):
            if fn_.endswith(".py"):
                path = os.path.join(dirpath, fn_)
                rel = os.path.relpath(path, root)
                try:
                    src_ = overlay[rel] if rel in (overlay or {}) else open(path, encoding="utf-8").read()
                    trees.append(ast.parse(src_))
                except (SyntaxError, OSError):
                    _REPO_WRITES = {}
                    return
    direct, calls, opaque, classes = {}, {}, set(), set()
    for t in trees:
        for c in ast.walk(t):
            if isinstance(c, ast.ClassDef):
                classes.add(c.name)
    # call sites by callee name (how many positional arguments, which keywords, any star), and names referenced without being
    # called (handed on as callbacks): what specialise_unpassed_defaults needs to know that nobody in the package passes a parameter
    global _REPO_CALLS
    sites, bare = {}, set()
    funcnames = {n.name for t in trees for n in ast.walk(t) if isinstance(n, ast.FunctionDef)} | classes
    for t in trees:
        callfuncs = set()
        for c in ast.walk(t):
            if isinstance(c, ast.Call):
                callfuncs.add(id(c.func))
                nm_ = c.func.attr if isinstance(c.func, ast.Attribute) else (c.func.id if isinstance(c.func, ast.Name) else None)
                if nm_ is not None:
                    sites.setdefault(nm_, []).append((len([a for a in c.args if not isinstance(a, ast.Starred)]), {k.arg for k in c.keywords if k.arg},
                                                      any(isinstance(a, ast.Starred) for a in c.args) or any(k.arg is None for k in c.keywords)))
        # names inside annotations are not uses (`-> PeriodicMessageTask`, `node: RemoteNode`)
        annot = set()
        for f_ in ast.walk(t):
            if isinstance(f_, ast.FunctionDef):
                for a_ in [f_.returns] + [y.annotation for y in ast.walk(f_.args) if isinstance(y, ast.arg)]:
                    if a_ is not None:
                        annot |= {id(y) for y in ast.walk(a_)}
            elif isinstance(f_, ast.AnnAssign):
                annot |= {id(y) for y in ast.walk(f_.annotation)}
        for x in ast.walk(t):
            if id(x) in callfuncs or id(x) in annot:
                continue
            if isinstance(x, ast.Attribute) and isinstance(x.ctx, ast.Load) and x.attr in funcnames:
                bare.add(x.attr)
            elif isinstance(x, ast.Name) and isinstance(x.ctx, ast.Load) and x.id in funcnames:
                bare.add(x.id)
    _REPO_CALLS = {"sites": sites, "bare": bare}
    # module-level NAME = struct.Struct("<literal>") anywhere in the package (a name defined once): a module that imports such a
    # name gets the definition put in front, so that inline_fresh_structs treats it like a local one
    global _REPO_STRUCTS
    st_defs = {}
    for t in trees:
        for st in t.body:
            if isinstance(st, ast.Assign) and len(st.targets) == 1 and isinstance(st.targets[0], ast.Name) and isinstance(st.value, ast.Call) \
                    and ast.unparse(st.value.func) in ("struct.Struct", "Struct") and len(st.value.args) == 1 and isinstance(st.value.args[0], ast.Constant) \
                    and isinstance(st.value.args[0].value, str):
                st_defs.setdefault(st.targets[0].id, set()).add(st.value.args[0].value)
    _REPO_STRUCTS = {k: next(iter(v)) for k, v in st_defs.items() if len(v) == 1}
    global _REPO_INTS
    int_defs = {}
    for t in trees:
        for st in t.body:
            if isinstance(st, ast.Assign) and len(st.targets) == 1 and isinstance(st.targets[0], ast.Name) and isinstance(st.value, ast.Constant) and type(st.value.value) is int:
                int_defs.setdefault(st.targets[0].id, set()).add(st.value.value)
    _REPO_INTS = {k: next(iter(v)) for k, v in int_defs.items() if len(v) == 1}
    global _REPO_OBSERVATIONAL
    from .effects import observational_attrs_of
    _REPO_OBSERVATIONAL = observational_attrs_of(trees)
    owner_of = {}
    for t in trees:
        for c in [n for n in ast.walk(t) if isinstance(n, ast.ClassDef)]:
            for m in c.body:
                if isinstance(m, ast.FunctionDef) and m.name == "__init__":
                    owner_of[id(m)] = c.name
    for t in trees:
        for f in [n for n in ast.walk(t) if isinstance(n, ast.FunctionDef)]:
            nm = f.name if f.name != "__init__" else f"{owner_of.get(id(f), '?')}.__init__"      # constructors are kept per class
            params = {a.arg for a in f.args.posonlyargs + f.args.args + f.args.kwonlyargs} | ({f.args.vararg.arg} if f.args.vararg else set()) | ({f.args.kwarg.arg} if f.args.kwarg else set())
            local_stores = {x.id for x in ast.walk(f) if isinstance(x, ast.Name) and isinstance(x.ctx, ast.Store)}
            w = direct.setdefault(nm, set())
            cs = calls.setdefault(nm, set())
            for x in ast.walk(f):
                if isinstance(x, ast.Attribute) and isinstance(x.ctx, (ast.Store, ast.Del)):
                    w.add(x.attr)
                elif isinstance(x, ast.Call):
                    g = x.func
                    if isinstance(g, ast.Attribute):
                        if g.attr in _GENERIC_METHODS and not (isinstance(g.value, ast.Name) and g.value.id == "self"):
                            continue                # a method name of the built-in containers / io / threading / queue on some object
                        if g.attr == "__init__":
                            continue                # a base-class constructor run on the object under construction
                        if g.attr in classes:
                            cs.add(f"{g.attr}.__init__")        # module.Class(...)
                        else:
                            cs.add(g.attr)
                    elif isinstance(g, ast.Name):
                        if g.id in ("setattr", "delattr", "exec", "eval"):
                            opaque.add(nm)
                        elif g.id in (params | local_stores) and g.id not in classes:
                            opaque.add(nm)          # a callable handed in or bound locally: a callback
                        else:
                            cs.add(g.id)
                    else:
                        opaque.add(nm)
    # constructors: calling a class runs its __init__
    out = {k: (None if k in opaque else set(v)) for k, v in direct.items()}
    for _ in range(len(out) + 2):
        changed = False
        for nm in out:
            if out[nm] is None:
                continue
            for callee in calls.get(nm, ()):
                targets = [callee] if callee in out else ([f"{callee}.__init__"] if callee in classes and f"{callee}.__init__" in out else [])
                for tg in targets:
                    if out.get(tg, set()) is None:
                        out[nm] = None
                        changed = True
                        break
                    if not out[tg] <= out[nm]:
                        out[nm] |= out[tg]
                        changed = True
                if out[nm] is None:
                    break
        if not changed:
            break
    _REPO_WRITES = out


_SELF_WRITES: dict = {}          # per module: method name -> set of attribute names it may store on any object, transitively through self-calls


def _self_writes(tree: ast.Module) -> dict:
    """For every method name of the module: the attribute names the method(s) of that name may store (on self or on anything
    else -- names only), including what the methods of self they call store.  A name that resolves to no method is absent."""
    direct, calls = {}, {}
    for c in [n for n in tree.body if isinstance(n, ast.ClassDef)]:
        for m in [n for n in c.body if isinstance(n, ast.FunctionDef)]:
            names = {m.name}
            if m.name.startswith("__") and not m.name.endswith("__"):
                names.add(f"_{c.name}{m.name}")
            w = {x.attr for x in ast.walk(m) if isinstance(x, ast.Attribute) and isinstance(x.ctx, (ast.Store, ast.Del))}
            # setattr(self, ...) and the like: unknown
            if any(isinstance(x, ast.Call) and isinstance(x.func, ast.Name) and x.func.id in ("setattr", "delattr", "exec", "eval") for x in ast.walk(m)):
                w = None
            cs = {x.func.attr for x in ast.walk(m) if isinstance(x, ast.Call) and isinstance(x.func, ast.Attribute)
                  and ((isinstance(x.func.value, ast.Name) and x.func.value.id == "self") or (isinstance(x.func.value, ast.Call) and isinstance(x.func.value.func, ast.Name) and x.func.value.func.id == "super"))}
            for nm in names:
                if nm in direct and (direct[nm] is None or w is None):
                    direct[nm] = None
                else:
                    direct[nm] = (direct.get(nm) or set()) | (w or set()) if w is not None else None
                calls[nm] = calls.get(nm, set()) | cs
    out = {k: (set(v) if v is not None else None) for k, v in direct.items()}
    for _ in range(len(out) + 1):
        changed = False
        for nm in out:
            if out[nm] is None:
                continue
            for callee in calls.get(nm, ()):
                if callee not in out:
                    continue            # a method defined elsewhere (base class of another module): taken not to store the caller's fields
                if out[callee] is None:
                    out[nm] = None
                    changed = True
                    break
                if not out[callee] <= out[nm]:
                    out[nm] |= out[callee]
                    changed = True
        if not changed:
            break
    global _SELF_WRITES
    _SELF_WRITES = out
    return out


_INIT_ONLY_ATTRS: set = set()          # per module: attribute names stored nowhere but in methods called __init__


def _init_only_attrs(tree: ast.Module) -> set:
    """Attribute names that the module stores only inside `__init__` methods (never re-bound after construction, no setattr
    with a computed name anywhere): a read of such a field gives the same object whenever it happens."""
    global _INIT_ONLY_ATTRS
    if any(isinstance(x, ast.Call) and isinstance(x.func, ast.Name) and x.func.id in ("setattr", "delattr") and not (len(x.args) >= 2 and isinstance(x.args[1], ast.Constant))
           for x in ast.walk(tree)):
        _INIT_ONLY_ATTRS = set()
        return _INIT_ONLY_ATTRS
    in_init, elsewhere = set(), set()
    for fn in [n for n in ast.walk(tree) if isinstance(n, ast.FunctionDef)]:
        tgt = in_init if fn.name == "__init__" else elsewhere
        for x in ast.walk(fn):
            if isinstance(x, ast.Attribute) and isinstance(x.ctx, (ast.Store, ast.Del)):
                tgt.add(x.attr)
            if isinstance(x, ast.Call) and isinstance(x.func, ast.Name) and x.func.id in ("setattr", "delattr") and len(x.args) >= 2 and isinstance(x.args[1], ast.Constant):
                tgt.add(x.args[1].value)
    for x in tree.body:
        for y in ast.walk(x) if not isinstance(x, (ast.FunctionDef, ast.ClassDef)) else []:
            if isinstance(y, ast.Attribute) and isinstance(y.ctx, (ast.Store, ast.Del)):
                elsewhere.add(y.attr)
    # methods (and their name-mangled spellings) that are never stored as attributes: `self.m` is always the same bound method
    methods = set()
    for c in [n for n in ast.walk(tree) if isinstance(n, ast.ClassDef)]:
        for m in [n for n in c.body if isinstance(n, ast.FunctionDef)]:
            methods.add(m.name)
            if m.name.startswith("__") and not m.name.endswith("__"):
                methods.add(f"_{c.name}{m.name}")
    _INIT_ONLY_ATTRS = (in_init - elsewhere) | (methods - in_init - elsewhere)
    return _INIT_ONLY_ATTRS


_HARMLESS_BUILTINS = {"next", "any", "all", "sum", "enumerate", "zip", "reversed", "iter", "set", "frozenset", "dict", "list", "bytearray", "print", "id", "type", "ord", "chr"}


def _harmful_calls(e: ast.AST, attrs=None):
    """Calls that may change state the caller cannot see from here or that may block while another thread changes it: everything
    but pure built-ins, the static functions of _PURE_STATIC and read-only methods (_PURE_METHODS) on a plain local name."""
    out = []
    for x in ast.walk(e):
        if not isinstance(x, ast.Call):
            continue
        f = x.func
        if isinstance(f, ast.Name) and f.id in _HARMLESS_BUILTINS:
            continue
        if isinstance(f, ast.Name) and "::" + f.id in _PURE_SELF_METHODS:
            continue                    # a module-level function that stores nothing and calls nothing harmful
        if isinstance(f, ast.Name) and (f.id in _PURE_BUILTINS or f.id in ("hasattr", "getattr", "repr", "format", "pretty_index") or f.id.endswith(("Error", "Exception", "Warning"))):
            continue                    # pure built-ins; exception constructors (the repository's are plain data holders)
        if isinstance(f, ast.Attribute) and isinstance(f.value, ast.Constant):
            continue                    # a method of a literal ('x'.join, b''.ljust)
        if isinstance(f, ast.Attribute) and isinstance(f.value, ast.Name) and f.value.id == "self" and f.attr in _PURE_SELF_METHODS:
            continue                    # a method of self that stores nothing and calls nothing harmful
        if attrs is not None and isinstance(f, ast.Attribute) and isinstance(f.value, ast.Name) and f.value.id == "self" \
                and _SELF_WRITES.get(f.attr) is not None and not (_SELF_WRITES[f.attr] & set(attrs)) and f.attr not in _REPO_WRITES:
            continue                    # a method of self that (transitively) stores none of the fields in question
        if attrs is not None and isinstance(f, ast.Attribute) and f.attr in _REPO_WRITES and _REPO_WRITES[f.attr] is not None \
                and not (_REPO_WRITES[f.attr] & set(attrs)):
            continue                    # a method of the package that, followed by name through the whole package, stores none of the fields
        if isinstance(f, ast.Attribute) and isinstance(f.value, ast.Name):
            if f"{f.value.id}.{f.attr}" in _PURE_STATIC:
                continue
            if f.value.id != "self" and f.attr in _PURE_METHODS:
                continue
        if isinstance(f, ast.Attribute) and f.attr in ("to_bytes", "ljust", "rjust", "decode", "encode", "upper", "lower", "strip", "rstrip", "islower", "hex", "bit_length") \
                and not isinstance(f.value, ast.Name):
            continue                    # methods of immutable built-in values (int, bytes, str)
        out.append(x)
    return out


def _harm_before_use(span, uses, attrs=None) -> bool:
    """May a harmful call (see _harmful_calls) run after the first statement of `span` starts and before one of `uses` is
    evaluated?  Units (simple statements, tests of if/while, iterables of for) are taken in source order, which for code
    without loops contains every execution order; two units in opposite branches of one if cannot follow each other; a loop
    that contains a use must not contain a harmful call at all."""
    if attrs is not None and attrs and set(attrs) <= _INIT_ONLY_ATTRS:
        return False            # fields bound once, in the constructor: no call can re-bind them
    units = []          # (scope node, path) in source order; path = tuple of (id(if-node), branch) entries

    def rec(stmts, path, in_loop):
        for st in stmts:
            if isinstance(st, (ast.FunctionDef, ast.ClassDef)):
                continue
            if isinstance(st, ast.If):
                units.append((st.test, path, in_loop))
                rec(st.body, path + ((id(st), 0),), in_loop)
                rec(st.orelse, path + ((id(st), 1),), in_loop)
            elif isinstance(st, (ast.For, ast.While)):
                units.append((st.iter if isinstance(st, ast.For) else st.test, path, st))
                rec(st.body, path, st)
                rec(st.orelse, path, in_loop)
            elif isinstance(st, ast.Try):
                rec(st.body, path, in_loop)
                for k, h in enumerate(st.handlers):
                    rec(h.body, path, in_loop)
                rec(st.orelse, path, in_loop)
                rec(st.finalbody, path, in_loop)
            elif isinstance(st, ast.With):
                for it in st.items:
                    units.append((it.context_expr, path, in_loop))
                rec(st.body, path, in_loop)
            else:
                units.append((st, path, in_loop))
    rec(span, (), None)

    def exclusive(p, q):
        d = dict(p)
        return any(k in d and d[k] != b for k, b in q)
    use_units = [(k, u) for k, (sc, _p, _l) in enumerate(units) for u in uses if any(u is y for y in ast.walk(sc))]
    if len({id(u) for _k, u in use_units}) != len({id(u) for u in uses}):
        return True                     # a use in a place this walk does not model
    for k, u in use_units:
        sc, path, loop = units[k]
        if loop is not None and any(_harmful_calls(sc2, attrs) for sc2, _p2, l2 in units if l2 is loop):
            return True
        # inside the unit itself: harmful calls evaluated before the use
        ev, reached = _eval_events(sc, u) if isinstance(sc, (ast.expr,) + _SIMPLE_STMTS) else ([], False)
        if not reached or any(kind == "call" and _harmful_calls(e_, attrs) and not any(u is y for y in ast.walk(e_.func)) for kind, e_ in ev):
            return True
        for j in range(k):
            sc2, path2, _l2 = units[j]
            if exclusive(path2, path):
                continue
            hc = _harmful_calls(sc2, attrs)
            if hc:
                return True
    return False


def _impure_calls(e: ast.AST):
    return [x for x in ast.walk(e) if isinstance(x, ast.Call) and not (isinstance(x.func, ast.Name) and x.func.id in _PURE_BUILTINS)]


_PURE_METHODS = {"tobytes", "ljust", "rjust", "decode", "encode", "hex", "upper", "lower", "strip", "rstrip", "lstrip", "replace", "startswith", "endswith",
                 "to_bytes", "get", "items", "keys", "values", "bit_length", "islower", "isupper", "pack", "unpack", "unpack_from", "format", "join", "split",
                 "index", "count", "find", "copy", "group", "match", "search", "sub", "has_section", "has_option", "options", "sections", "isdigit", "indices", "qsize", "empty", "full",
                 # codec methods of ODVariable (canopen/objectdictionary/__init__.py): they store nothing
                 "encode_raw", "decode_raw", "encode_phys", "decode_phys", "encode_desc", "decode_desc", "encode_bits", "decode_bits"}


def _stable_rhs(fn, blk, i, rhs, uses, params) -> bool:
    """May every later read of the local assigned at blk[i] be replaced by `rhs`?  Yes when rhs is built from literals,
    constants (capitalised names), pure built-ins and operators over plain names that nothing after blk[i] writes or mutates;
    reads of self.<attr> are allowed when the function never stores that attribute and calls no method of self after blk[i]
    (calls on other objects are taken not to reach back into self).  All uses must lie in the statements that follow in the
    same block, outside nested functions."""
    names, attrs, roots, subs = set(), set(), set(), set()

    def ok(e) -> bool:
        if isinstance(e, ast.Constant):
            return True
        if isinstance(e, ast.Name):
            if not (e.id.isupper() and len(e.id) > 1):
                names.add(e.id)
            return True
        if isinstance(e, ast.Subscript) and _const_like(e.value) and _pure_chain(e.value):
            return ok(e.slice)          # a look-up in a constant table (capitalised name): the table is not changed
        if isinstance(e, ast.Subscript) and isinstance(e.value, ast.Name) and isinstance(e.slice, ast.Name):
            # an item of a local container selected by a local key: stable while neither name is rebound and nothing stores
            # into the container (method calls on it are checked like on any root)
            roots.add(e.value.id)
            names.add(e.slice.id)
            subs.add(e.value.id)
            return True
        if isinstance(e, (ast.Attribute, ast.Subscript)) and _alias_chain(e) and not (isinstance(e, ast.Attribute) and _const_like(e) and _pure_chain(e)):
            # a chain of fields and constant items below a name: stable while none of those fields/items is stored
            c_ = e
            depth_ = 0
            while isinstance(c_, (ast.Attribute, ast.Subscript)):
                if isinstance(c_, ast.Attribute):
                    attrs.add(c_.attr)
                else:
                    subs.add(ast.unparse(c_.value))
                c_ = c_.value
                depth_ += 1
            if isinstance(c_, ast.Name) and depth_ >= 2:
                if c_.id != "self":
                    roots.add(c_.id)
                return True
        if isinstance(e, ast.Attribute):
            if _const_like(e) and _pure_chain(e):
                return True
            if isinstance(e.value, ast.Name) and e.value.id == "self":
                attrs.add(e.attr)
                return True
            if isinstance(e.value, ast.Name):
                # a field of a local object: stable while that field is not stored, the name not rebound, and the object not
                # handed to a call or used as the receiver of a method that may change it
                roots.add(e.value.id)
                attrs.add(e.attr)
                return True
            return False
        if isinstance(e, ast.Call) and isinstance(e.func, ast.Attribute) and isinstance(e.func.value, ast.Name) and e.func.value.id != "self" \
                and e.func.attr in _PURE_METHODS and not any(isinstance(a, ast.Starred) for a in e.args):
            # a read-only method of a local object (parser look-ups, struct packing, string methods)
            roots.add(e.func.value.id)
            return all(ok(a) for a in e.args) and all(ok(k.value) for k in e.keywords)
        if isinstance(e, ast.BinOp):
            return ok(e.left) and ok(e.right)
        if isinstance(e, ast.UnaryOp):
            return ok(e.operand)
        if isinstance(e, ast.BoolOp):
            return all(ok(v) for v in e.values)
        if isinstance(e, ast.Compare):
            return ok(e.left) and all(ok(c) for c in e.comparators)
        if isinstance(e, ast.IfExp):
            return ok(e.test) and ok(e.body) and ok(e.orelse)
        if isinstance(e, ast.Tuple):
            return all(ok(x) for x in e.elts)
        if isinstance(e, ast.Call):
            return isinstance(e.func, ast.Name) and e.func.id in _PURE_BUILTINS and e.func.id not in ("super", "bytearray", "list") and not e.keywords and all(ok(a) for a in e.args)
        return False
    if not ok(rhs):
        return False
    after = blk[i + 1:]
    inner = [x for st_ in after for x in ast.walk(st_)]
    if not all(any(u is x for x in inner) for u in uses):
        return False
    # only what lies between the assignment and the last statement with a use can interfere
    last = max(k for k, st_ in enumerate(after) if any(u is x for u in uses for x in ast.walk(st_)))
    inner = [x for st_ in after[:last + 1] for x in ast.walk(st_)]
    tail = after[last]
    if isinstance(tail, (ast.Assign, ast.AugAssign)) and not any(u is x for u in uses for t_ in (tail.targets if isinstance(tail, ast.Assign) else [tail.target]) for x in ast.walk(t_)):
        # the right-hand side of the last statement is evaluated before its target is stored
        skip = {id(x) for t_ in (tail.targets if isinstance(tail, ast.Assign) else [tail.target]) if isinstance(t_, ast.Attribute) for x in [t_]}
        inner = [x for x in inner if id(x) not in skip]
    for x in inner:
        if isinstance(x, (ast.FunctionDef, ast.Lambda)) and any(any(u is y for y in ast.walk(x)) for u in uses):
            return False
    # enclosing loops: a write anywhere in the loop could reach the uses of a later iteration only through blk[i] again (the
    # assignment is re-evaluated first), so only what follows in this block matters
    for x in inner:
        root = None
        if isinstance(x, ast.Name) and isinstance(x.ctx, (ast.Store, ast.Del)):
            root = x.id
        elif isinstance(x, (ast.Subscript, ast.Attribute)) and isinstance(x.ctx, (ast.Store, ast.Del)):
            r = x.value
            while isinstance(r, (ast.Subscript, ast.Attribute)):
                r = r.value
            root = r.id if isinstance(r, ast.Name) else None
            if isinstance(x, ast.Attribute) and x.attr in attrs:
                return False
            if isinstance(x, ast.Subscript) and ast.unparse(x.value) in subs:
                return False
        elif isinstance(x, ast.Call) and isinstance(x.func, ast.Attribute):
            r = x.func.value
            if isinstance(r, ast.Name) and r.id in (names | roots) and x.func.attr not in _PURE_METHODS:
                return False
            if attrs and isinstance(r, ast.Name) and r.id == "self":
                return False
            if attrs and isinstance(r, ast.Call) and isinstance(r.func, ast.Name) and r.func.id == "super":
                return False
        if root is not None and root in names:
            return False
        if isinstance(x, ast.Name) and isinstance(x.ctx, (ast.Store, ast.Del)) and x.id in roots:
            return False
        if isinstance(x, ast.Call) and roots and any(isinstance(a, ast.Name) and a.id in roots for a in list(x.args) + [k.value for k in x.keywords]) \
                and not (isinstance(x.func, ast.Name) and x.func.id in _PURE_BUILTINS):
            return False
    if attrs:
        # a field is read: between the assignment and a use nothing may run that could store it behind our back or block while
        # another thread does (a method of self, a callback, a wait, a queue get, a send that is answered synchronously)
        if _harm_before_use(after[:last + 1], uses, attrs if not roots else None):
            return False
    return True


def _head_line(st: ast.stmt) -> str:
    return ast.unparse(st).splitlines()[0].strip()


def _copy_propagate_attr(fn, blk, i, st, ref_lines) -> bool:
    """`self.a = p` (p a parameter): a later read of self.a in the same block is p, as long as neither is written again and no
    method of self runs in between; done where it makes the statement read as the reference's."""
    import copy as _copy
    attr, p = st.targets[0].attr, st.value.id
    if any(isinstance(x, ast.Name) and x.id == p and isinstance(x.ctx, (ast.Store, ast.Del)) for x in ast.walk(fn)):
        return False
    for later in blk[i + 1:]:
        for sub in ast.walk(later):
            if isinstance(sub, ast.Attribute) and sub.attr == attr and isinstance(sub.ctx, (ast.Store, ast.Del)):
                return False
            if isinstance(sub, ast.Call) and isinstance(sub.func, ast.Attribute) and isinstance(sub.func.value, ast.Name) and sub.func.value.id == "self":
                return False
            if isinstance(sub, (ast.FunctionDef, ast.Lambda)):
                return False
        for sub in ast.walk(later):
            if not isinstance(sub, ast.stmt):
                continue
            scope = sub.test if isinstance(sub, (ast.If, ast.While)) else (sub if isinstance(sub, _SIMPLE_STMTS) else None)
            if scope is None or _head_line(sub) in ref_lines:
                continue
            uses = [x for x in ast.walk(scope) if isinstance(x, ast.Attribute) and x.attr == attr and isinstance(x.value, ast.Name) and x.value.id == "self" and isinstance(x.ctx, ast.Load)]
            if not uses:
                # the other way round: the parameter is read where the reference reads the attribute
                puses = [x for x in ast.walk(scope) if isinstance(x, ast.Name) and x.id == p and isinstance(x.ctx, ast.Load)]
                if puses:
                    trial = _copy.deepcopy(sub)

                    class _P(ast.NodeTransformer):
                        def visit_Name(self, node):
                            if node.id == p and isinstance(node.ctx, ast.Load):
                                return ast.copy_location(ast.Attribute(value=ast.Name(id="self", ctx=ast.Load()), attr=attr, ctx=ast.Load()), node)
                            return node
                    if isinstance(trial, (ast.If, ast.While)):
                        trial.test = _P().visit(trial.test)
                    else:
                        trial = _P().visit(trial)
                    if _head_line(_Canonical().visit(trial)) in ref_lines:
                        for u in puses:
                            _replace_in(fn, u, ast.Attribute(value=ast.Name(id="self", ctx=ast.Load()), attr=attr, ctx=ast.Load()))
                        return True
                continue
            trial = _copy.deepcopy(sub)

            class _R(ast.NodeTransformer):
                def visit_Attribute(self, node):
                    if node.attr == attr and isinstance(node.value, ast.Name) and node.value.id == "self" and isinstance(node.ctx, ast.Load):
                        return ast.copy_location(ast.Name(id=p, ctx=ast.Load()), node)
                    return self.generic_visit(node)
            if isinstance(trial, (ast.If, ast.While)):
                trial.test = _R().visit(trial.test)
            else:
                trial = _R().visit(trial)
            if _head_line(_Canonical().visit(trial)) in ref_lines:
                for u in uses:
                    _replace_in(fn, u, ast.Name(id=p, ctx=ast.Load()))
                return True
    return False


def _ctor_fields(tree: ast.Module):
    """{class name: {field: positional index of the constructor parameter stored in it}} for fields that the class stores
    exactly once, in __init__, straight from a parameter."""
    out = {}
    for c in [n for n in tree.body if isinstance(n, ast.ClassDef)]:
        init = next((m for m in c.body if isinstance(m, ast.FunctionDef) and m.name == "__init__"), None)
        if init is None or init.args.vararg or init.args.kwarg:
            continue
        ps = [a.arg for a in init.args.posonlyargs + init.args.args][1:]
        stores = {}
        for x in ast.walk(c):
            if isinstance(x, ast.Attribute) and isinstance(x.ctx, (ast.Store, ast.Del)):
                stores[x.attr] = stores.get(x.attr, 0) + 1
        fields = {}
        for st in init.body:
            if isinstance(st, ast.Assign) and len(st.targets) == 1 and isinstance(st.targets[0], ast.Attribute) and isinstance(st.targets[0].value, ast.Name) \
                    and st.targets[0].value.id == "self" and isinstance(st.value, ast.Name) and st.value.id in ps and stores.get(st.targets[0].attr) == 1 \
                    and not any(isinstance(y, ast.Name) and y.id == st.value.id and isinstance(y.ctx, ast.Store) for y in ast.walk(init)):
                fields[st.targets[0].attr] = ps.index(st.value.id)
        if fields and not any(isinstance(m, ast.FunctionDef) and m.name in ("__setattr__", "__getattr__", "__getattribute__") for m in c.body):
            out[c.name] = fields
    return out


def _ctor_field_reads(fn: ast.FunctionDef, ref_fn: dict, ctor) -> None:
    """`x = Cls(a, b)` ... `x.f`  ->  `a` where Cls.__init__ stores parameter a in f and nothing else ever stores f, x and a are
    not rebound in between; done where it makes the statement read as the reference's."""
    import copy as _copy
    ref_lines = {l.strip() for l in ref_fn.get("src", "").splitlines()}
    for blk in _fn_blocks(fn):
        for i, st in enumerate(blk):
            if not (isinstance(st, ast.Assign) and len(st.targets) == 1 and isinstance(st.targets[0], ast.Name) and isinstance(st.value, ast.Call)
                    and isinstance(st.value.func, ast.Name) and st.value.func.id in ctor and not st.value.keywords
                    and all(isinstance(a, (ast.Name, ast.Constant)) for a in st.value.args)):
                continue
            x, fields = st.targets[0].id, ctor[st.value.func.id]
            argn = {a.id for a in st.value.args if isinstance(a, ast.Name)}
            for later in blk[i + 1:]:
                if any(isinstance(n, ast.Name) and isinstance(n.ctx, (ast.Store, ast.Del)) and n.id in argn | {x} for n in ast.walk(later)):
                    break
                for sub in ast.walk(later):
                    if not isinstance(sub, ast.stmt):
                        continue
                    scope = sub.test if isinstance(sub, (ast.If, ast.While)) else (sub if isinstance(sub, _SIMPLE_STMTS) else None)
                    if scope is None or _head_line(sub) in ref_lines:
                        continue
                    uses = [n for n in ast.walk(scope) if isinstance(n, ast.Attribute) and isinstance(n.ctx, ast.Load) and isinstance(n.value, ast.Name) and n.value.id == x
                            and n.attr in fields and fields[n.attr] < len(st.value.args)]
                    if not uses:
                        continue
                    trial = _copy.deepcopy(sub)

                    class _R(ast.NodeTransformer):
                        def visit_Attribute(self, node):
                            if isinstance(node.ctx, ast.Load) and isinstance(node.value, ast.Name) and node.value.id == x and node.attr in fields and fields[node.attr] < len(st.value.args):
                                return ast.copy_location(_copy.deepcopy(st.value.args[fields[node.attr]]), node)
                            return self.generic_visit(node)
                    if isinstance(trial, (ast.If, ast.While)):
                        trial.test = _R().visit(trial.test)
                    else:
                        trial = _R().visit(trial)
                    if _head_line(_Canonical().visit(trial)) in ref_lines:
                        for u in uses:
                            _replace_in(fn, u, _copy.deepcopy(st.value.args[fields[u.attr]]))
                        return _ctor_field_reads(fn, ref_fn, ctor)


def _reverse_copy_attr(fn, blk, i, st, ref_lines) -> bool:
    """`obj.a = t` (t a local): a later read of t in the same block is obj.a as long as neither is written again, obj is not
    rebound or handed to a call in between; done where it makes the statement read as the reference's."""
    import copy as _copy
    tgt, t = st.targets[0], st.value.id
    obj, attr = tgt.value.id, tgt.attr
    for later in blk[i + 1:]:
        for sub in ast.walk(later):
            if isinstance(sub, ast.Attribute) and sub.attr == attr and isinstance(sub.ctx, (ast.Store, ast.Del)):
                return False
            if isinstance(sub, ast.Name) and sub.id in (obj, t) and isinstance(sub.ctx, (ast.Store, ast.Del)):
                return False
            if isinstance(sub, (ast.FunctionDef, ast.Lambda)):
                return False
        for sub in ast.walk(later):
            if not isinstance(sub, ast.stmt):
                continue
            scope = sub.test if isinstance(sub, (ast.If, ast.While)) else (sub if isinstance(sub, _SIMPLE_STMTS) else None)
            if scope is None or _head_line(sub) in ref_lines:
                continue
            uses = [x for x in ast.walk(scope) if isinstance(x, ast.Name) and x.id == t and isinstance(x.ctx, ast.Load)]
            if not uses:
                continue
            trial = _copy.deepcopy(sub)

            class _R(ast.NodeTransformer):
                def visit_Name(self, node):
                    if node.id == t and isinstance(node.ctx, ast.Load):
                        return ast.copy_location(ast.Attribute(value=ast.Name(id=obj, ctx=ast.Load()), attr=attr, ctx=ast.Load()), node)
                    return node
            if isinstance(trial, (ast.If, ast.While)):
                trial.test = _R().visit(trial.test)
            else:
                trial = _R().visit(trial)
            if _head_line(_Canonical().visit(trial)) in ref_lines:
                for u in uses:
                    _replace_in(fn, u, ast.Attribute(value=ast.Name(id=obj, ctx=ast.Load()), attr=attr, ctx=ast.Load()))
                return True
        # a call in this statement that is handed obj (or any call on self when obj is self) may store the attribute
        for sub in ast.walk(later):
            if isinstance(sub, ast.Call) and (any(isinstance(a, ast.Name) and a.id == obj for a in sub.args)
                                              or (isinstance(sub.func, ast.Attribute) and isinstance(sub.func.value, ast.Name) and sub.func.value.id == obj and sub.func.attr not in _PURE_METHODS)):
                return False
    return False


def _substitute_toward_reference(fn: ast.FunctionDef, ref_fn: dict) -> None:
    """Forward substitution guided by the reference: a read of a local whose (pure, still valid) defining expression, put in
    its place, makes the statement read exactly as one of the reference function does is replaced by that expression."""
    import copy as _copy
    ref_lines = {l.strip() for l in ref_fn.get("src", "").splitlines()}
    params = {p.arg for p in fn.args.posonlyargs + fn.args.args + fn.args.kwonlyargs}
    for _ in range(40):
        changed = False
        # attribute copies first (the forward substitution below would dissolve their right-hand sides)
        for blk in _fn_blocks(fn):
            for i, st in enumerate(blk):
                if isinstance(st, ast.Assign) and len(st.targets) == 1 and isinstance(st.targets[0], ast.Attribute) and isinstance(st.targets[0].value, ast.Name) \
                        and st.targets[0].value.id == "self" and isinstance(st.value, ast.Name) and st.value.id in params:
                    if _copy_propagate_attr(fn, blk, i, st, ref_lines):
                        changed = True
                        break
                    continue
                if isinstance(st, ast.Assign) and len(st.targets) == 1 and isinstance(st.targets[0], ast.Attribute) and isinstance(st.targets[0].value, ast.Name) \
                        and isinstance(st.value, ast.Name) and st.value.id not in params:
                    if _reverse_copy_attr(fn, blk, i, st, ref_lines):
                        changed = True
                        break
            if changed:
                break
        if changed:
            continue
        for blk in _fn_blocks(fn):
            for i, st in enumerate(blk):
                if not (isinstance(st, ast.Assign) and len(st.targets) == 1 and isinstance(st.targets[0], ast.Name)):
                    continue
                t = st.targets[0].id
                if isinstance(st.value, (ast.Name, ast.Constant)):
                    continue
                for later in blk[i + 1:]:
                    if any(isinstance(x, ast.Name) and x.id == t and isinstance(x.ctx, ast.Store) for x in ast.walk(later)):
                        break
                    heads = []
                    for sub in ast.walk(later):
                        if isinstance(sub, ast.stmt) and not isinstance(sub, (ast.FunctionDef, ast.ClassDef)):
                            scope = sub.test if isinstance(sub, (ast.If, ast.While)) else (sub if isinstance(sub, _SIMPLE_STMTS) else None)
                            if scope is None:
                                continue
                            uses = [x for x in ast.walk(scope) if isinstance(x, ast.Name) and x.id == t and isinstance(x.ctx, ast.Load)]
                            if uses and _head_line(sub) not in ref_lines:
                                heads.append((sub, scope, uses))
                    for sub, scope, uses in heads:
                        trial = _copy.deepcopy(sub)

                        class _R(ast.NodeTransformer):
                            def visit_Name(self, node):
                                if node.id == t and isinstance(node.ctx, ast.Load):
                                    return ast.copy_location(_copy.deepcopy(st.value), node)
                                return node
                        if isinstance(trial, (ast.If, ast.While)):
                            trial.test = _R().visit(trial.test)
                        else:
                            trial = _R().visit(trial)
                        trial = _Canonical().visit(trial)
                        if _head_line(trial) in ref_lines and _stable_rhs(fn, blk, i, st.value, uses, params):
                            for u in uses:
                                _replace_in(fn, u, _copy.deepcopy(st.value))
                            changed = True
                            break
                    if changed:
                        break
                if changed:
                    break
            if changed:
                break
        if not changed:
            return
        _Canonical().visit(fn)


def _dissolve_setdefault_alias(fn: ast.FunctionDef, known: set) -> None:
    """`t = D.setdefault(k, V)` + uses of t   ->   `D.setdefault(k, V)` + uses of `D[k]`: after the call D[k] is the object the
    call returned, and stays it as long as nothing in between stores into D or rebinds D or k."""
    import copy as _copy
    for blk in _fn_blocks(fn):
        for i, st in enumerate(blk):
            if not (isinstance(st, ast.Assign) and len(st.targets) == 1 and isinstance(st.targets[0], ast.Name) and st.targets[0].id not in known
                    and isinstance(st.value, ast.Call) and isinstance(st.value.func, ast.Attribute) and st.value.func.attr == "setdefault"
                    and len(st.value.args) == 2 and not st.value.keywords and _pure_chain(st.value.func.value)
                    and (isinstance(st.value.args[0], ast.Constant) or _pure_chain(st.value.args[0]))):
                continue
            t, D, k = st.targets[0].id, st.value.func.value, st.value.args[0]
            alln = [x for x in ast.walk(fn) if isinstance(x, ast.Name) and x.id == t]
            if sum(isinstance(x.ctx, ast.Store) for x in alln) != 1:
                continue
            uses = [x for x in alln if isinstance(x.ctx, ast.Load)]
            rest = [x for later in blk[i + 1:] for x in ast.walk(later)]
            if not uses or not all(any(u is x for x in rest) for u in uses):
                continue
            dtxt = ast.unparse(D)
            roots = {x.id for x in ast.walk(D) if isinstance(x, ast.Name)} | {x.id for x in ast.walk(k) if isinstance(x, ast.Name)}
            bad = False
            for x in rest:
                if isinstance(x, ast.Name) and isinstance(x.ctx, (ast.Store, ast.Del)) and x.id in roots:
                    bad = True
                if isinstance(x, (ast.Subscript, ast.Attribute)) and isinstance(x.ctx, (ast.Store, ast.Del)) and ast.unparse(x.value) == dtxt:
                    bad = True
                if isinstance(x, ast.Attribute) and isinstance(x.ctx, (ast.Store, ast.Del)) and ast.unparse(x) == dtxt:
                    bad = True
                if isinstance(x, ast.Call) and isinstance(x.func, ast.Attribute) and ast.unparse(x.func.value) == dtxt and x.func.attr not in ("get", "items", "keys", "values"):
                    bad = True
                if isinstance(x, (ast.FunctionDef, ast.Lambda)):
                    bad = True
            if bad:
                continue
            for u in uses:
                _replace_in(fn, u, ast.Subscript(value=_copy.deepcopy(D), slice=_copy.deepcopy(k), ctx=ast.Load()))
            blk[i] = ast.copy_location(ast.Expr(value=st.value), st)
            ast.fix_missing_locations(fn)
            return _dissolve_setdefault_alias(fn, known)


def _extract_toward_reference(fn: ast.FunctionDef, ref_fn: dict, known: set) -> None:
    """The inverse of inlining a temporary: the reference function has `x = E` for a local x that the current function does
    not mention at all, and E occurs exactly once in the current function, in a simple statement or an if test, with nothing
    that calls evaluated before it there: the assignment is put back in front of that statement."""
    try:
        rtree = ast.parse(ref_fn.get("src", "") or "pass")
    except SyntaxError:
        return
    cand = {}
    for st in ast.walk(rtree):
        if isinstance(st, ast.Assign) and len(st.targets) == 1 and isinstance(st.targets[0], ast.Name) and st.targets[0].id in known \
                and (not isinstance(st.value, (ast.Name, ast.Constant)) or (isinstance(st.value, ast.Name) and st.value.id.isupper() and len(st.value.id) > 3)):
            cand.setdefault(st.targets[0].id, []).append(st.value)
    present = {x.id for x in ast.walk(fn) if isinstance(x, ast.Name)}
    for x, values in cand.items():
        if x in present or len(values) != 1:
            continue
        txt = ast.unparse(values[0])
        hits = [n for n in ast.walk(fn) if isinstance(n, ast.expr) and not isinstance(n, ast.Constant) and isinstance(getattr(n, "ctx", ast.Load()), ast.Load) and ast.unparse(n) == txt]
        # nested hits (E inside E) cannot happen for equal texts; hits inside nested functions are out
        if not hits or any(isinstance(f_, (ast.FunctionDef, ast.Lambda)) and f_ is not fn and any(h_ is y for h_ in hits for y in ast.walk(f_)) for f_ in ast.walk(fn)):
            continue
        n_ref_reads = sum(1 for n in ast.walk(rtree) if isinstance(n, ast.Name) and n.id == x and isinstance(n.ctx, ast.Load))
        if len(hits) != n_ref_reads:
            continue
        done = False
        for blk in _fn_blocks(fn):
            for i, st in enumerate(blk):
                scope = st.test if isinstance(st, ast.If) else (st if isinstance(st, _SIMPLE_STMTS) else None)
                if scope is None or not any(n is hits[0] for n in ast.walk(scope)):
                    continue
                if any(isinstance(n, (ast.Lambda, ast.ListComp, ast.SetComp, ast.DictComp, ast.GeneratorExp, ast.NamedExpr)) for n in ast.walk(scope)):
                    break
                events, reached = _eval_events(scope, hits[0])
                cond = [n for n in ast.walk(scope) if (isinstance(n, ast.IfExp) and any(y is hits[0] for b in (n.body, n.orelse) for y in ast.walk(b)))
                        or (isinstance(n, ast.BoolOp) and any(y is hits[0] for v in n.values[1:] for y in ast.walk(v)))]
                if not reached or (cond and any(isinstance(z, ast.Call) for z in ast.walk(values[0]))) or any(k == "call" for k, _e in events):
                    break               # (an expression without calls may be evaluated early even where the original evaluates it conditionally)
                new_assign = ast.copy_location(ast.Assign(targets=[ast.Name(id=x, ctx=ast.Store())], value=values[0]), st)
                if len(hits) > 1:
                    # every occurrence must see the value computed here
                    blk.insert(i, new_assign)
                    params_ = {p.arg for p in fn.args.posonlyargs + fn.args.args + fn.args.kwonlyargs}
                    ok_ = _stable_rhs(fn, blk, i, values[0], hits, params_)
                    if not ok_:
                        del blk[i]
                        break
                else:
                    blk.insert(i, new_assign)
                for h_ in hits:
                    _replace_in(fn, h_, ast.Name(id=x, ctx=ast.Load()))
                ast.fix_missing_locations(fn)
                done = True
                break
            if done:
                break
        if done:
            return _extract_toward_reference(fn, ref_fn, known)


def _fuse_unpack_into_star(fn: ast.FunctionDef, known: set) -> None:
    """`a, b, c = E` directly followed by a statement whose only use of a, b, c is one call `f(..., a, b, c)` with exactly these
    as its last positional arguments in order (a, b, c fresh, read nowhere else)  ->  `f(..., *E)`.  E is evaluated before f's
    other arguments instead of among them: required to be names / literals there."""
    import copy as _copy
    loads = {}
    for n in ast.walk(fn):
        if isinstance(n, ast.Name) and isinstance(n.ctx, ast.Load):
            loads.setdefault(n.id, []).append(n)
    for blk in _fn_blocks(fn):
        for i in range(len(blk) - 1):
            st = blk[i]
            if not (isinstance(st, ast.Assign) and len(st.targets) == 1 and isinstance(st.targets[0], ast.Tuple) and len(st.targets[0].elts) >= 2
                    and all(isinstance(e, ast.Name) for e in st.targets[0].elts)):
                continue
            names = [e.id for e in st.targets[0].elts]
            if any(nm in known or len(loads.get(nm, [])) != 1 for nm in names) or len(set(names)) != len(names):
                continue
            nxt = blk[i + 1]
            for c in [x for x in ast.walk(nxt) if isinstance(x, ast.Call) and not x.keywords]:
                tail = c.args[-len(names):]
                if len(c.args) >= len(names) and all(isinstance(a, ast.Name) and a.id == nm for a, nm in zip(tail, names)) \
                        and all(isinstance(a, (ast.Name, ast.Constant)) for a in c.args[:-len(names)]) and isinstance(c.func, (ast.Name, ast.Attribute)):
                    c.args = c.args[:-len(names)] + [ast.Starred(value=_copy.deepcopy(st.value), ctx=ast.Load())]
                    del blk[i]
                    ast.fix_missing_locations(fn)
                    return


def _fuse_unpack_stores(fn: ast.FunctionDef, known: set) -> None:
    """`a, b = X` / `self.p = a` / `self.q = b` with a, b fresh and not read otherwise  ->  `self.p, self.q = X`."""
    for blk in _fn_blocks(fn):
        for i, st in enumerate(blk):
            if not (isinstance(st, ast.Assign) and len(st.targets) == 1 and isinstance(st.targets[0], ast.Tuple) and all(isinstance(e, ast.Name) for e in st.targets[0].elts)):
                continue
            elts = st.targets[0].elts
            k = i + 1
            fused = False
            order = []
            while k < len(blk):
                nx = blk[k]
                if not (isinstance(nx, ast.Assign) and len(nx.targets) == 1 and isinstance(nx.targets[0], ast.Attribute) and isinstance(nx.targets[0].value, ast.Name)
                        and nx.targets[0].value.id == "self" and isinstance(nx.value, ast.Name)):
                    break
                nm = nx.value.id
                idx = next((j for j, e in enumerate(elts) if isinstance(e, ast.Name) and e.id == nm), None)
                if idx is None or nm in known or nm == "_":
                    break
                occ = [x for x in ast.walk(fn) if isinstance(x, ast.Name) and x.id == nm]
                if len(occ) != 2 or (order and idx < order[-1]):
                    break
                order.append(idx)
                elts[idx] = ast.copy_location(ast.Attribute(value=ast.Name(id="self", ctx=ast.Load()), attr=nx.targets[0].attr, ctx=ast.Store()), elts[idx])
                del blk[k]
                fused = True
            if fused:
                ast.fix_missing_locations(fn)
                return _fuse_unpack_stores(fn, known)


def _in_try_body(fn: ast.FunctionDef, st: ast.stmt) -> bool:
    """Is the statement inside the body of a try statement of fn (where an exception half-way is observable afterwards)?"""
    for t in ast.walk(fn):
        if isinstance(t, ast.Try) and (t.handlers or t.finalbody):
            for b in t.body:
                if any(x is st for x in ast.walk(b)):
                    return True
    return False


def _merge_name_alias(fn: ast.FunctionDef, known: set) -> None:
    """`b = E` ... `a = b` with b a fresh local that is not used after the copy and a not mentioned in between: b is a."""
    params = {p.arg for p in fn.args.posonlyargs + fn.args.args + fn.args.kwonlyargs} | ({fn.args.vararg.arg} if fn.args.vararg else set()) | ({fn.args.kwarg.arg} if fn.args.kwarg else set())
    if any(isinstance(n, (ast.Global, ast.Nonlocal)) for n in ast.walk(fn)):
        return
    for blk in _fn_blocks(fn):
        for i, st in enumerate(blk):
            if not (isinstance(st, ast.Assign) and len(st.targets) == 1 and isinstance(st.targets[0], ast.Name) and isinstance(st.value, ast.Name)):
                continue
            a, b = st.targets[0].id, st.value.id
            if a == b or b in known or b in params or a in params or _in_try_body(fn, st):
                continue
            occ_b = [x for x in ast.walk(fn) if isinstance(x, ast.Name) and x.id == b]
            if sum(isinstance(x.ctx, ast.Store) for x in occ_b) != 1:
                continue
            j = next((k for k in range(i) if isinstance(blk[k], ast.Assign) and len(blk[k].targets) == 1 and isinstance(blk[k].targets[0], ast.Name) and blk[k].targets[0].id == b), None)
            if j is None:
                continue
            region = {id(x) for k in range(j, i + 1) for x in ast.walk(blk[k])}
            if not all(id(x) in region for x in occ_b):
                continue
            if any(isinstance(x, ast.Name) and x.id == a for k in range(j, i) for x in ast.walk(blk[k])):
                continue
            if any(isinstance(x, (ast.FunctionDef, ast.Lambda)) for k in range(j, i) for x in ast.walk(blk[k])):
                continue
            for x in occ_b:
                x.id = a
            del blk[i]
            return _merge_name_alias(fn, known)


def _restore_aug_mask(fn: ast.FunctionDef, ref_fn: dict, known: set) -> None:
    """The reference masks a local in place right after it is bound (`x &= K`) and then reads x; the current function leaves
    x unmasked and reads `x & K` everywhere instead: the in-place mask is put back and every `x & K` becomes x."""
    import re as _re
    ref_lines = [l.strip() for l in ref_fn.get("src", "").splitlines()]
    cur_lines = {l.strip() for l in ast.unparse(fn).splitlines()}
    for line in ref_lines:
        m = _re.fullmatch(r"([A-Za-z_][A-Za-z_0-9]*) &= (\d+)", line)
        if not m or line in cur_lines:
            continue
        x, K = m.group(1), int(m.group(2))
        if x not in known:
            continue
        stores = [n for n in ast.walk(fn) if isinstance(n, ast.Name) and n.id == x and isinstance(n.ctx, ast.Store)]
        loads = [n for n in ast.walk(fn) if isinstance(n, ast.Name) and n.id == x and isinstance(n.ctx, ast.Load)]
        if len(stores) != 1 or not loads:
            continue
        masked = [b for b in ast.walk(fn) if isinstance(b, ast.BinOp) and isinstance(b.op, ast.BitAnd) and isinstance(b.left, ast.Name) and b.left.id == x
                  and isinstance(b.right, ast.Constant) and b.right.value == K]
        if len(masked) != len(loads) or {id(b.left) for b in masked} != {id(l) for l in loads}:
            continue
        for blk in _fn_blocks(fn):
            for i, st in enumerate(blk):
                if isinstance(st, ast.Assign) and any(stores[0] is n for n in ast.walk(st)):
                    rest = {id(n) for later in blk[i + 1:] for n in ast.walk(later)}
                    if not all(id(l) in rest for l in loads):
                        break
                    for b in masked:
                        _replace_in(fn, b, ast.Name(id=x, ctx=ast.Load()))
                    blk.insert(i + 1, ast.copy_location(ast.AugAssign(target=ast.Name(id=x, ctx=ast.Store()), op=ast.BitAnd(), value=ast.Constant(value=K)), st))
                    ast.fix_missing_locations(fn)
                    return


def _coalesce_toward_reference(fn: ast.FunctionDef, ref_fn: dict, known: set) -> None:
    """`t = f(x)` with t fresh, x a local of the reference that is not mentioned after this statement, where the reference
    reuses the name (`x = f(x)`): t is x from here on.  Also for an if/else that binds t in both branches."""
    ref_lines = {l.strip() for l in ref_fn.get("src", "").splitlines()}
    params = {p.arg for p in fn.args.posonlyargs + fn.args.args + fn.args.kwonlyargs}
    if any(isinstance(n, (ast.Global, ast.Nonlocal, ast.Lambda)) or (isinstance(n, ast.FunctionDef) and n is not fn) for n in ast.walk(fn)):
        return
    for blk in _fn_blocks(fn):
        for i, st in enumerate(blk):
            if isinstance(st, ast.Assign) and len(st.targets) == 1 and isinstance(st.targets[0], ast.Name):
                tnames = {st.targets[0].id}
            elif isinstance(st, ast.If) and st.orelse:
                tn = [{x.targets[0].id for x in b if isinstance(x, ast.Assign) and len(x.targets) == 1 and isinstance(x.targets[0], ast.Name)} for b in (st.body, st.orelse)]
                tnames = tn[0] & tn[1]
            else:
                continue
            for t in sorted(tnames):
                if t in known or t in params:
                    continue
                occ_t = [n for n in ast.walk(fn) if isinstance(n, ast.Name) and n.id == t]
                inside = {id(n) for later in blk[i:] for n in ast.walk(later)}
                if not all(id(n) in inside for n in occ_t):
                    continue
                reads = {n.id for n in ast.walk(st) if isinstance(n, ast.Name) and isinstance(n.ctx, ast.Load) and n.id in known and n.id not in params}
                for x in sorted(reads):
                    occ_x = [n for n in ast.walk(fn) if isinstance(n, ast.Name) and n.id == x]
                    upto = {id(n) for earlier in blk[:i + 1] for n in ast.walk(earlier)}
                    if not all(id(n) in upto for n in occ_x):
                        continue
                    # x must be bound before (in this block) and the renamed statement must read as one of the reference's
                    if not any(isinstance(n, ast.Name) and n.id == x and isinstance(n.ctx, ast.Store) for earlier in blk[:i] for n in ast.walk(earlier)):
                        continue
                    import copy as _copy
                    trial = _copy.deepcopy(st)
                    for n in ast.walk(trial):
                        if isinstance(n, ast.Name) and n.id == t:
                            n.id = x
                    trial = _Canonical().visit(ast.Module(body=[trial], type_ignores=[])).body
                    lines = {l.strip() for tr in trial for l in ast.unparse(tr).splitlines()}
                    want = [l for l in lines if l.startswith(f"{x} ") or f" {x} " in l]
                    if not want or not all(l in ref_lines for l in lines):
                        continue
                    # inside the statement itself x is read before t is written (plain assignment) or in the other branch only
                    if isinstance(st, ast.If) and any(isinstance(n, ast.Name) and n.id == x and isinstance(n.ctx, ast.Store) for n in ast.walk(st)):
                        continue
                    for n in occ_t:
                        n.id = x
                    return _coalesce_toward_reference(fn, ref_fn, known)


def _rename_by_role(fn: ast.FunctionDef, ref_fn: dict, known: set) -> None:
    """A fresh local that plays the part of a reference local which the current function does not mention at all: if giving it
    that name makes at least two of the expressions it occurs in read as expressions of the reference function, and no other
    absent reference local does as well, it gets that name (alpha-renaming; the name is free)."""
    ref_src = ref_fn.get("src", "")
    if not ref_src:
        return
    try:
        rtree = ast.parse(ref_src)
    except SyntaxError:
        return
    ref_exprs = {ast.unparse(n) for n in ast.walk(rtree) if isinstance(n, (ast.Call, ast.BinOp, ast.Compare, ast.Subscript, ast.Attribute))}
    ref_exprs |= {ast.unparse(n) for n in ast.walk(rtree) if isinstance(n, ast.Assign) and isinstance(n.value, ast.Constant)}
    ref_exprs |= {"if " + ast.unparse(n.test) for n in ast.walk(rtree) if isinstance(n, (ast.If, ast.While))}
    params = {p.arg for p in fn.args.posonlyargs + fn.args.args + fn.args.kwonlyargs} | ({fn.args.vararg.arg} if fn.args.vararg else set()) | ({fn.args.kwarg.arg} if fn.args.kwarg else set())
    if any(isinstance(n, (ast.Global, ast.Nonlocal, ast.Lambda)) or (isinstance(n, ast.FunctionDef) and n is not fn) for n in ast.walk(fn)):
        return
    present = {n.id for n in ast.walk(fn) if isinstance(n, ast.Name)} | {a.arg for a in ast.walk(fn) if isinstance(a, ast.arg)}
    fresh = sorted({n.id for n in ast.walk(fn) if isinstance(n, ast.Name) and isinstance(n.ctx, ast.Store)} - known - params)
    # a reference local is available when the function does not mention it at all, or only in the branch opposite to the fresh one
    absent = sorted(x for x in known if x not in params and (x not in present or any(_exclusive_names(fn, t_, x) for t_ in fresh)))
    if not absent or not fresh:
        return
    import copy as _copy
    best = {}
    for t in fresh:
        hosts = [n for n in ast.walk(fn) if isinstance(n, (ast.Call, ast.BinOp, ast.Compare, ast.Subscript, ast.Attribute))
                 and any(isinstance(y, ast.Name) and y.id == t for y in ast.walk(n))]
        for x in absent:
            if x in present and not _exclusive_names(fn, t, x):
                continue
            score = 0
            for h in hosts:
                c = _copy.deepcopy(h)
                for y in ast.walk(c):
                    if isinstance(y, ast.Name) and y.id == t:
                        y.id = x
                if ast.unparse(c) in ref_exprs and ast.unparse(h) not in ref_exprs:
                    score += 1
            if score >= 2:
                best.setdefault(t, []).append((score, x))
    taken = set()
    for t, cands in sorted(best.items()):
        cands.sort(reverse=True)
        if len(cands) > 1 and cands[0][0] == cands[1][0]:
            continue
        x = cands[0][1]
        if x in taken or sum(1 for t2, c2 in best.items() if t2 != t and c2 and max(c2)[1] == x) > 0:
            continue
        taken.add(x)
        for n in ast.walk(fn):
            if isinstance(n, ast.Name) and n.id == t:
                n.id = x


def _fold_flag_building(fn: ast.FunctionDef, known: set) -> None:
    """A fresh local built up as a flag word -- `t = A`, `t |= B`, `if c: t |= K` -- becomes one expression:
    `if c: t |= K` -> `t |= K if c else 0` (c and K without calls), and `t = A` directly followed by `t |= B` -> `t = A | B`."""
    for _ in range(30):
        changed = False
        for blk in _fn_blocks(fn):
            for i, st in enumerate(blk):
                if isinstance(st, ast.If) and not st.orelse and len(st.body) == 1 and isinstance(st.body[0], ast.AugAssign) and isinstance(st.body[0].op, ast.BitOr) \
                        and isinstance(st.body[0].target, ast.Name) and st.body[0].target.id not in known \
                        and not any(isinstance(x, (ast.Call, ast.NamedExpr, ast.Await, ast.Yield)) for x in ast.walk(st.test)) \
                        and not any(isinstance(x, (ast.Call, ast.NamedExpr, ast.Await, ast.Yield)) for x in ast.walk(st.body[0].value)) \
                        and not any(isinstance(x, ast.Name) and x.id == st.body[0].target.id for x in ast.walk(st.test)):
                    a = st.body[0]
                    blk[i] = ast.copy_location(ast.AugAssign(target=a.target, op=ast.BitOr(), value=ast.IfExp(test=st.test, body=a.value, orelse=ast.Constant(value=0))), st)
                    changed = True
                    break
                if isinstance(st, ast.Assign) and len(st.targets) == 1 and isinstance(st.targets[0], ast.Name) and st.targets[0].id not in known and i + 1 < len(blk) \
                        and isinstance(blk[i + 1], ast.AugAssign) and isinstance(blk[i + 1].op, ast.BitOr) and isinstance(blk[i + 1].target, ast.Name) \
                        and blk[i + 1].target.id == st.targets[0].id and not _impure_calls(blk[i + 1].value) \
                        and not any(isinstance(x, ast.Name) and x.id == st.targets[0].id for x in ast.walk(blk[i + 1].value)):
                    st.value = ast.BinOp(left=st.value, op=ast.BitOr(), right=blk[i + 1].value)
                    del blk[i + 1]
                    changed = True
                    break
            if changed:
                break
        if not changed:
            break
    ast.fix_missing_locations(fn)


def _attr_built_in_local(fn: ast.FunctionDef, ref_fn: dict, known: set) -> None:
    """A field of an object under construction is computed in a fresh local and stored once at the end (`t = ...`; ...; `obj.a = t`)
    where the reference works on the field itself: t is obj.a.  obj is a local that has not escaped (no call takes it as argument
    or receiver, it is not re-bound) and obj.a is not touched between the first binding of t and the copy; the copy stands in the
    same block as that binding; t is not re-bound after the copy.  At least one store must then read as a line of the reference."""
    import copy as _copy
    ref_lines = {l.strip() for l in ref_fn.get("src", "").splitlines()}
    for blk in _fn_blocks(fn):
        for j, cp in enumerate(blk):
            if not (isinstance(cp, ast.Assign) and len(cp.targets) == 1 and isinstance(cp.targets[0], ast.Attribute) and isinstance(cp.targets[0].value, ast.Name)
                    and isinstance(cp.value, ast.Name) and cp.value.id not in known):
                continue
            obj, attr, t = cp.targets[0].value.id, cp.targets[0].attr, cp.value.id
            if obj == "self":
                continue
            first = next((k for k in range(j) if any(isinstance(x, ast.Name) and x.id == t and isinstance(x.ctx, ast.Store) for x in ast.walk(blk[k]))), None)
            if first is None:
                continue
            # every occurrence of t lies in blk[first:]
            inside = {id(x) for st in blk[first:] for x in ast.walk(st)}
            occ = [x for x in ast.walk(fn) if isinstance(x, ast.Name) and x.id == t]
            if not all(id(x) in inside for x in occ):
                continue
            if any(isinstance(x, ast.Name) and x.id == t and isinstance(x.ctx, (ast.Store, ast.Del)) for st in blk[j + 1:] for x in ast.walk(st)):
                continue
            bad = False
            for st in blk[first:j]:
                for x in ast.walk(st):
                    if isinstance(x, ast.Attribute) and x.attr == attr and isinstance(x.value, ast.Name) and x.value.id == obj:
                        bad = True
                    if isinstance(x, ast.Name) and x.id == obj and isinstance(x.ctx, (ast.Store, ast.Del)):
                        bad = True
                    if isinstance(x, ast.Call) and (any(isinstance(a, ast.Name) and a.id == obj for a in list(x.args) + [k.value for k in x.keywords])
                                                    or (isinstance(x.func, ast.Attribute) and isinstance(x.func.value, ast.Name) and x.func.value.id == obj)):
                        bad = True
                    if isinstance(x, (ast.FunctionDef, ast.Lambda)):
                        bad = True
            # obj must be a local bound in this function before (not a parameter: the caller could watch it)
            params = {p.arg for p in fn.args.posonlyargs + fn.args.args + fn.args.kwonlyargs}
            if bad or obj in params or not any(isinstance(x, ast.Name) and x.id == obj and isinstance(x.ctx, ast.Store) for st in fn.body for x in ast.walk(st)):
                continue
            # stores to obj.a after the copy would make later reads of t differ
            if any(isinstance(x, ast.Attribute) and x.attr == attr and isinstance(x.ctx, (ast.Store, ast.Del)) and isinstance(x.value, ast.Name) and x.value.id == obj
                   for st in blk[j + 1:] for x in ast.walk(st)):
                continue
            # would a store read as the reference's?
            trial_ok = False
            for st in blk[first:j]:
                for x in ast.walk(st):
                    if isinstance(x, ast.Assign) and len(x.targets) == 1 and isinstance(x.targets[0], ast.Name) and x.targets[0].id == t:
                        tr2 = _copy.deepcopy(x)
                        _subst_name_with_attr(tr2, t, obj, attr)
                        if _head_line(_Canonical().visit(tr2)) in ref_lines:
                            trial_ok = True
            if not trial_ok:
                continue
            for st in blk[first:]:
                _subst_name_with_attr(st, t, obj, attr)
            del blk[j]
            ast.fix_missing_locations(fn)
            return _attr_built_in_local(fn, ref_fn, known)


def _subst_name_with_attr(root: ast.AST, t: str, obj: str, attr: str) -> None:
    for parent in ast.walk(root):
        for fld, val in ast.iter_fields(parent):
            if isinstance(val, ast.Name) and val.id == t:
                setattr(parent, fld, ast.copy_location(ast.Attribute(value=ast.Name(id=obj, ctx=ast.Load()), attr=attr, ctx=val.ctx), val))
            elif isinstance(val, list):
                for k, v in enumerate(val):
                    if isinstance(v, ast.Name) and v.id == t:
                        val[k] = ast.copy_location(ast.Attribute(value=ast.Name(id=obj, ctx=ast.Load()), attr=attr, ctx=v.ctx), v)


def _delay_snapshot_mutation(fn: ast.FunctionDef, known: set) -> None:
    """`t = self.a` / `self.a ^= K` / ... uses of t ...   ->   `t = self.a` / ... uses of t ... / `self.a ^= K`: an update of
    an attribute whose old value was saved in a fresh local moves behind the last use of that local, when nothing in between
    reads or writes the attribute, calls anything but pure built-ins, or leaves the block.  (The saved copy then is the
    attribute itself and is inlined by the next pass.)"""
    import copy as _copy
    for blk in _fn_blocks(fn):
        for i, st in enumerate(blk):
            if not (isinstance(st, ast.Assign) and len(st.targets) == 1 and isinstance(st.targets[0], ast.Name) and st.targets[0].id not in known
                    and isinstance(st.value, ast.Attribute) and isinstance(st.value.value, ast.Name) and st.value.value.id == "self"):
                continue
            t, attr = st.targets[0].id, st.value.attr
            if sum(1 for x in ast.walk(fn) if isinstance(x, ast.Name) and x.id == t and isinstance(x.ctx, ast.Store)) != 1 or _in_try_body(fn, st):
                continue
            m = None
            for k in range(i + 1, len(blk)):
                tgt = blk[k].target if isinstance(blk[k], ast.AugAssign) else (blk[k].targets[0] if isinstance(blk[k], ast.Assign) and len(blk[k].targets) == 1 else None)
                if tgt is not None and ast.unparse(tgt) == f"self.{attr}":
                    m = k
                    break
                if any(isinstance(x, ast.Attribute) and x.attr == attr for x in ast.walk(blk[k])) or _impure_calls(blk[k]):
                    break
            if m is None:
                continue
            uses = [k for k in range(m + 1, len(blk)) if any(isinstance(x, ast.Name) and x.id == t for x in ast.walk(blk[k]))]
            if not uses or any(isinstance(x, ast.Name) and x.id == t and isinstance(x.ctx, ast.Load) for k in range(i + 1, m) for x in ast.walk(blk[k])) and False:
                continue
            u = uses[-1]
            mut = blk[m]
            mut_names = {x.id for x in ast.walk(mut) if isinstance(x, ast.Name)} - {"self", t}
            ok = True
            for k in range(m + 1, u + 1):
                for x in ast.walk(blk[k]):
                    if isinstance(x, ast.Attribute) and x.attr == attr:
                        ok = False
                    if isinstance(x, (ast.Return, ast.Raise, ast.Break, ast.Continue, ast.Try, ast.With, ast.FunctionDef, ast.Lambda, ast.Yield, ast.Await)):
                        ok = False
                    if isinstance(x, ast.Name) and isinstance(x.ctx, (ast.Store, ast.Del)) and x.id in mut_names:
                        ok = False
                if _impure_calls(blk[k]) and any(not (isinstance(c.func, ast.Attribute) and c.func.attr in _PURE_METHODS and isinstance(c.func.value, ast.Name) and c.func.value.id != "self")
                                                for c in _impure_calls(blk[k])):
                    ok = False
            if not ok or _impure_calls(mut):
                continue
            # reads of t inside the update itself (`self.a = t ^ K`) are the attribute
            class _T(ast.NodeTransformer):
                def visit_Name(self, node):
                    if node.id == t and isinstance(node.ctx, ast.Load):
                        return ast.copy_location(_copy.deepcopy(st.value), node)
                    return node
            mut = _T().visit(mut)
            if isinstance(mut, ast.Assign) and isinstance(mut.value, ast.BinOp) and ast.unparse(mut.value.left) == f"self.{attr}":
                mut = ast.copy_location(ast.AugAssign(target=mut.targets[0], op=mut.value.op, value=mut.value.right), mut)
            del blk[m]
            blk.insert(u, mut)
            ast.fix_missing_locations(fn)
            return _delay_snapshot_mutation(fn, known)


def _all_local(fn: ast.FunctionDef, t: str) -> bool:
    """Every read of local t is preceded, in its own block, by a plain assignment `t = ...` (so each read sees exactly that
    assignment and no other)."""
    loads = [x for x in ast.walk(fn) if isinstance(x, ast.Name) and x.id == t and isinstance(x.ctx, ast.Load)]
    if not loads:
        return False
    blocks = _fn_blocks(fn)
    for u in loads:
        ok = False
        for blk in blocks:
            for k, st in enumerate(blk):
                if any(u is x for x in ast.walk(st)):
                    # innermost block wins: keep looking, but remember a hit
                    if any(isinstance(p, ast.Assign) and len(p.targets) == 1 and isinstance(p.targets[0], ast.Name) and p.targets[0].id == t for p in blk[:k]) \
                            and not any(isinstance(x, ast.Name) and x.id == t and isinstance(x.ctx, ast.Store) for x in ast.walk(st)):
                        ok = True
        if not ok:
            return False
    return True


_QUERY_METHODS = {"qsize", "empty", "full", "keys", "values", "items", "count", "index", "copy", "hex", "bit_length", "is_set", "is_alive"}


def _only_queries(e: ast.expr) -> bool:
    """Every call in e is a side-effect-free query method of the built-in containers / queue / threading objects, whatever the
    receiver (`self.responses.qsize()`): an unused result of such an expression can be dropped."""
    calls = [c for c in ast.walk(e) if isinstance(c, ast.Call)]
    return bool(calls) and all(isinstance(c.func, ast.Attribute) and c.func.attr in _QUERY_METHODS and not c.args and not c.keywords for c in calls)


def _inline_fresh_temps(fn: ast.FunctionDef, known: set, multi: bool = True) -> None:
    """A local that the reference tree does not have, assigned once and read once in a later statement of the same block,
    is replaced by its expression (the inverse of "extract variable").  Applied only to names absent from the recorded
    local names, so the unchanged tree is never rewritten.  Semantics-preserving: the statements in between are themselves
    assignments of plain locals that neither the expression nor they can influence, and inside the using statement nothing
    that the move could reorder against (a call; for an expression with calls also any attribute/subscript read) is
    evaluated before the place of use."""
    import copy as _copy
    params = {p.arg for p in fn.args.posonlyargs + fn.args.args + fn.args.kwonlyargs} | ({fn.args.vararg.arg} if fn.args.vararg else set()) | ({fn.args.kwarg.arg} if fn.args.kwarg else set())
    banned = (ast.Lambda, ast.ListComp, ast.SetComp, ast.DictComp, ast.GeneratorExp, ast.NamedExpr, ast.Await, ast.Yield, ast.YieldFrom)
    for _ in range(12):
        changed = False
        stores, loads = {}, {}
        for n in ast.walk(fn):
            if isinstance(n, ast.Name):
                (stores if isinstance(n.ctx, (ast.Store, ast.Del)) else loads).setdefault(n.id, []).append(n)
            elif isinstance(n, (ast.Global, ast.Nonlocal)):
                return
        for blk in _fn_blocks(fn):
            for i, st in enumerate(blk):
                # a fresh local that nobody reads, computed without calling anything: the assignment goes
                if isinstance(st, ast.Assign) and len(st.targets) == 1 and isinstance(st.targets[0], ast.Name) and st.targets[0].id not in known \
                        and st.targets[0].id not in params and st.targets[0].id not in loads and (not _harmful_calls(st.value) or _only_queries(st.value)) and len(blk) > 1 \
                        and not any(isinstance(x, (ast.NamedExpr, ast.Await, ast.Yield, ast.YieldFrom)) for x in ast.walk(st.value)):
                    del blk[i]
                    changed = True
                    break
            if changed:
                break
        if changed:
            continue
        for blk in _fn_blocks(fn):
            for i in range(len(blk) - 1):
                st = blk[i]
                if not (isinstance(st, ast.Assign) and len(st.targets) == 1 and isinstance(st.targets[0], ast.Name)):
                    continue
                t = st.targets[0].id
                if t not in known and t not in params and len(stores.get(t, [])) == 1 and len(loads.get(t, [])) >= 1 and _alias_chain(st.value) \
                        and isinstance(st.value, (ast.Attribute, ast.Subscript)):
                    # alias of an attribute chain, read several times: every read is the chain itself as long as nothing in
                    # the function stores to that attribute or rebinds the chain's root (a callee rebinding the caller's
                    # attribute behind its back is assumed not to happen)
                    chain = st.value
                    root = chain
                    while isinstance(root, (ast.Attribute, ast.Subscript)):
                        root = root.value
                    attr_names = set()
                    sub_bases = set()
                    c_ = chain
                    while isinstance(c_, (ast.Attribute, ast.Subscript)):
                        if isinstance(c_, ast.Attribute):
                            attr_names.add(c_.attr)
                        else:
                            sub_bases.add(ast.unparse(c_.value))
                        c_ = c_.value
                    clash = any(isinstance(x, ast.Subscript) and isinstance(x.ctx, (ast.Store, ast.Del)) and ast.unparse(x.value) in sub_bases for x in ast.walk(fn)) or any(isinstance(x, ast.Attribute) and isinstance(x.ctx, (ast.Store, ast.Del)) and x.attr in attr_names for x in ast.walk(fn)) \
                        or (isinstance(root, ast.Name) and root.id != "self" and len(stores.get(root.id, [])) > 0 and root.id not in params) \
                        or any(isinstance(x, (ast.FunctionDef, ast.Lambda)) and x is not fn and any(isinstance(y, ast.Name) and y.id == t for y in ast.walk(x)) for x in ast.walk(fn))
                    later = all(any(u is y for later_st in blk[i + 1:] for y in ast.walk(later_st)) for u in loads[t])
                    if later and not clash:
                        # nothing between the alias and one of its uses may re-bind the chain behind our back (see _harmful_calls);
                        # a call made *through* the alias is the call the original made on the chain itself
                        idx_last = max(k for k in range(i + 1, len(blk)) if any(u is y for u in loads[t] for y in ast.walk(blk[k])))
                        if not (attr_names and not sub_bases and attr_names <= _INIT_ONLY_ATTRS) and \
                                _harm_before_use(blk[i + 1:idx_last + 1], loads[t], attr_names if isinstance(root, ast.Name) and root.id == "self" else None):
                            clash = True
                    if not clash and later:
                        for u in loads[t]:
                            _replace_in(fn, u, _copy.deepcopy(chain))
                        del blk[i]
                        changed = True
                        break
                if multi and t not in known and t not in params and loads.get(t):
                    # a name for a value that cannot change between its computation and its uses (pure operations on names
                    # that are not written again): every use it reaches in the rest of the block is the expression itself
                    rest_nodes = [x for later_st in blk[i + 1:] for x in ast.walk(later_st)]
                    here = [u for u in loads[t] if any(u is x for x in rest_nodes)]
                    restored = any(x is not st.targets[0] and any(x is y for y in rest_nodes) for x in stores.get(t, []))
                    sole = len(stores.get(t, [])) == 1 and len(here) == len(loads[t])
                    leaves = (isinstance(blk[-1], (ast.Return, ast.Raise)) and not any(isinstance(x, (ast.Break, ast.Continue)) for x in rest_nodes)) or _all_local(fn, t)
                    if here and not restored and (sole or leaves) and _stable_rhs(fn, blk, i, st.value, here, params):
                        for u in here:
                            _replace_in(fn, u, _copy.deepcopy(st.value))
                        del blk[i]
                        changed = True
                        break
                if t in known or t in params or not loads.get(t):
                    continue
                rest_nodes = [x for later_st in blk[i + 1:] for x in ast.walk(later_st)]
                here = [u for u in loads[t] if any(u is x for x in rest_nodes)]
                restored = any(x is not st.targets[0] and any(x is y for y in rest_nodes) for x in stores.get(t, []))
                sole = len(stores.get(t, [])) == 1 and len(loads[t]) == 1
                leaves = (isinstance(blk[-1], (ast.Return, ast.Raise)) and not any(isinstance(x, (ast.Break, ast.Continue)) for x in rest_nodes)) or _all_local(fn, t)
                if len(here) != 1 or not (sole or (leaves and not restored)):
                    continue
                use = here[0]
                rhs = st.value
                if any(isinstance(x, (ast.Lambda, ast.NamedExpr, ast.Await, ast.Yield, ast.YieldFrom, ast.Starred)) for x in ast.walk(rhs)):
                    continue                    # (a comprehension on the right-hand side is evaluated eagerly, once: it may move)
                impure = bool(_impure_calls(rhs))
                reads_state = any(isinstance(x, (ast.Attribute, ast.Subscript)) for x in ast.walk(rhs))
                rhs_names = {x.id for x in ast.walk(rhs) if isinstance(x, ast.Name)}
                # find the using statement in the same block
                j = None
                for k in range(i + 1, len(blk)):
                    scope = blk[k].test if isinstance(blk[k], ast.If) else blk[k]
                    if any(x is use for x in ast.walk(scope)):
                        j = k
                        break
                    mid = blk[k]
                    ok_mid = isinstance(mid, ast.Assign) and len(mid.targets) == 1 and isinstance(mid.targets[0], ast.Name) and mid.targets[0].id not in rhs_names \
                        and not _impure_calls(mid.value) and not any(isinstance(x, banned) for x in ast.walk(mid.value))
                    if ok_mid and impure and any(isinstance(x, (ast.Attribute, ast.Subscript)) for x in ast.walk(mid.value)):
                        ok_mid = False
                    if not ok_mid:
                        break
                if j is None:
                    continue
                nxt = blk[j]
                scope_node = nxt.test if isinstance(nxt, ast.If) else nxt
                if not isinstance(nxt, ast.If) and not isinstance(nxt, _SIMPLE_STMTS):
                    continue
                if any(isinstance(x, banned) for x in ast.walk(scope_node)):
                    continue
                events, reached = _eval_events(scope_node, use)
                if not reached:
                    continue
                # a use under a conditional sub-expression (IfExp branch, and/or operand after the first) may not be evaluated at all
                cond_parents = [x for x in ast.walk(scope_node) if (isinstance(x, ast.IfExp) and any(y is use for b in (x.body, x.orelse) for y in ast.walk(b)))
                                or (isinstance(x, ast.BoolOp) and any(y is use for v in x.values[1:] for y in ast.walk(v)))]
                if cond_parents and (impure or reads_state):
                    continue
                if impure and events:
                    continue
                if reads_state and any(k == "call" and _impure_calls(e_) for k, e_ in events):
                    continue
                new = _copy.deepcopy(rhs)

                class _R(ast.NodeTransformer):
                    def visit_Name(self, node):
                        if node is use:
                            return ast.copy_location(new, node)
                        return node
                if isinstance(nxt, ast.If):
                    nxt.test = _R().visit(nxt.test)
                else:
                    blk[j] = _R().visit(nxt)
                del blk[i]
                changed = True
                break
            if changed:
                break
        if not changed:
            return


_LOCALNAMES = None


def _load_localnames():
    global _LOCALNAMES
    if _LOCALNAMES is None:
        import json
        p = os.path.join(os.path.dirname(os.path.abspath(__file__)), "localnames.json")
        try:
            with open(p) as fh:
                _LOCALNAMES = json.load(fh)
        except OSError:
            _LOCALNAMES = {}
    return _LOCALNAMES


def _rename_params(fn: ast.FunctionDef, ref_params) -> None:
    """Parameters renamed in place (same count, same positions) are given the reference's names again: inside the function
    this is alpha-renaming; keyword call sites are the callers' business and are checked where a rule looks at them."""
    a = fn.args
    cur = a.posonlyargs + a.args + a.kwonlyargs + ([a.vararg] if a.vararg else []) + ([a.kwarg] if a.kwarg else [])
    if len(cur) != len(ref_params):
        return
    mapping = {c.arg: r for c, r in zip(cur, ref_params) if c.arg != r}
    if not mapping:
        return
    used = {n.id for n in ast.walk(fn) if isinstance(n, ast.Name)} | {x.arg for x in ast.walk(fn) if isinstance(x, ast.arg)}
    for old, new in mapping.items():
        if new in used and new not in mapping:
            return
    for n in ast.walk(fn):
        if isinstance(n, (ast.FunctionDef, ast.Lambda)) and n is not fn:
            inner = n.args
            if {x.arg for x in inner.posonlyargs + inner.args + inner.kwonlyargs} & (set(mapping) | set(mapping.values())):
                return
    for n in ast.walk(fn):
        if isinstance(n, ast.Name) and n.id in mapping:
            n.id = mapping[n.id]
    for c in cur:
        if c.arg in mapping:
            c.arg = mapping[c.arg]


_REFERENCE = None


def _load_reference():
    global _REFERENCE
    if _REFERENCE is None:
        import json
        p = os.path.join(os.path.dirname(os.path.abspath(__file__)), "reference.json")
        try:
            with open(p) as fh:
                _REFERENCE = json.load(fh)
        except OSError:
            _REFERENCE = {}
    return _REFERENCE


_REF_NAMES_CACHE = {}


def _load_reference_names() -> set:
    """Module-level constant names of the whole reference package (a struct constant the pinned tree already has, e.g. SDO_STRUCT,
    is not fresh in any module that imports it)."""
    if "v" not in _REF_NAMES_CACHE:
        out = set()
        for m_ in _load_reference().values():
            out |= set(m_.get("consts", []))
        _REF_NAMES_CACHE["v"] = out
    return _REF_NAMES_CACHE["v"]


def canonicalise(tree: ast.Module, rel: str = "") -> ast.Module:
    tree = _Canonical().visit(tree)
    off = os.environ.get("VERIF_NO_RENAME") == "1"
    names = _load_localnames().get(rel, {}) if not off else {}
    ref = _load_reference().get(rel) if not off else None
    if ref is not None:
        from . import canon
        # struct constants of another module of the package, imported here (by name or by *)
        local_defs = {t.id for st in tree.body if isinstance(st, (ast.Assign, ast.AnnAssign)) for t in (st.targets if isinstance(st, ast.Assign) else [st.target]) if isinstance(t, ast.Name)}
        imported = {a.asname or a.name for st in tree.body if isinstance(st, ast.ImportFrom) for a in st.names}
        used = {x.id for x in ast.walk(tree) if isinstance(x, ast.Name) and isinstance(x.ctx, ast.Load)}
        has_struct = any(isinstance(st, ast.Import) and any((a.asname or a.name) == "struct" for a in st.names) for st in tree.body) or "*" in imported
        for nm_, fmt_ in sorted(_REPO_STRUCTS.items()):
            if nm_ in used and nm_ not in local_defs and nm_ not in set(ref.get("consts", [])) and has_struct and (nm_ in imported or "*" in imported) \
                    and nm_ not in _load_reference_names():
                k_ = next((i for i, st in enumerate(tree.body) if not isinstance(st, (ast.Import, ast.ImportFrom)) and not (isinstance(st, ast.Expr) and isinstance(st.value, ast.Constant))), len(tree.body))
                tree.body.insert(k_, ast.Assign(targets=[ast.Name(id=nm_, ctx=ast.Store())], value=ast.Call(func=ast.Attribute(value=ast.Name(id="struct", ctx=ast.Load()), attr="Struct", ctx=ast.Load()),
                                                                                                   args=[ast.Constant(value=fmt_)], keywords=[])))
        ast.fix_missing_locations(tree)
        canon.inline_fresh_structs(tree, ref)
        canon.inline_fresh_regexes(tree, ref)
        for _k in range(3):
            before_c = ast.dump(tree)
            canon.inline_fresh_constants(tree, ref)
            tree = _Canonical().visit(tree)          # folds what the inlined literals make constant (A = 1; B = A | 2)
            if ast.dump(tree) == before_c:
                break
        canon.rename_fresh_members(tree, ref)
        canon.unroll_fresh_generators(tree, ref)
        if canon.specialise_unpassed_defaults(tree, ref, _REPO_CALLS):
            tree = _Canonical().visit(tree)
        if canon.drop_fresh_observational(tree, ref, _REPO_OBSERVATIONAL):
            tree = _Canonical().visit(tree)
        canon.drop_fresh_widening_guards(tree, ref)
        canon.flatten_fresh_locks(tree, ref)
        canon.restore_flag_masks(tree, ref)
        tree = _Canonical().visit(tree)
        canon.inline_fresh_helpers(tree, ref, protect_renames=True)
        canon.rename_fresh_members(tree, ref)
        canon.inline_fresh_helpers(tree, ref)
        canon.rename_fresh_members(tree, ref)
        canon.restore_inlined_helpers(tree, ref)
    ctor = _ctor_fields(tree) if ref is not None else {}
    _pure_self_methods(tree)
    _self_writes(tree)
    _init_only_attrs(tree)
    if names or ref is not None:
        def walk(node, prefix):
            for n in getattr(node, "body", []):
                if isinstance(n, ast.ClassDef):
                    walk(n, prefix + n.name + ".")
                elif isinstance(n, ast.FunctionDef):
                    q = prefix + n.name
                    if any(isinstance(d, ast.Attribute) and d.attr == "setter" for d in n.decorator_list):
                        q += ".setter"
                    if ref is not None and q in ref.get("funcs", {}):
                        _rename_params(n, ref["funcs"][q].get("params", []))
                    known = {x for _s, ns in names.get(q, []) for x in ns}
                    # locals of enclosing/nested functions are known names as well (closures)
                    for qq, sh in names.items():
                        if qq.startswith(q + ".") or q.startswith(qq + "."):
                            known |= {x for _s, ns in sh for x in ns}
                    before = None
                    rf = ref["funcs"].get(q) if ref is not None else None

                    def rename():
                        if q in names:
                            _rename_locals(n, [(s, list(ns)) for s, ns in names[q]], rf)

                    def shape():
                        if rf is not None:
                            from . import canon
                            n._module_int_consts = _REPO_INTS
                            canon.flatten_reraising_try(n, rf)
                            canon.normalise_expression_forms(n, rf)
                            canon.thread_none_flag(n, known)
                            canon.specialise_constant_tail(n, rf)
                            canon.split_conditional_update(n, rf, known)
                            canon.sink_tail_into_branches(n, rf)
                            canon.sink_use_into_branches(n, rf, known)
                            canon.enumerate_to_counter(n, rf, known)
                            canon.dict_iteration_forms(n, rf)
                            canon.unroll_literal_loops(n, rf, known)
                            canon.range_loops_to_while(n, rf)
                            canon.hoist_common_tail(n, rf)
                            canon.normalise_control_flow(n, rf.get("tests", []), rf.get("forms", {}))
                            canon.adopt_reference_tests(n, rf)
                            canon.hoist_common_tail(n, rf)
                    for _round in range(3):
                        rename()
                        shape()
                        rename()
                        _fold_flag_building(n, known)
                        _delay_snapshot_mutation(n, known)
                        _dissolve_setdefault_alias(n, known)
                        _merge_name_alias(n, known)
                        _fuse_unpack_stores(n, known)
                        _fuse_unpack_into_star(n, known)
                        _inline_fresh_temps(n, known, multi=False)
                        shape()
                        rename()
                        if rf is not None:
                            _substitute_toward_reference(n, rf)
                        _inline_fresh_temps(n, known)
                        _Canonical().visit(n)          # the stage-1 forms again for what inlining has put together
                        if rf is not None:
                            _substitute_toward_reference(n, rf)
                            if ctor:
                                _ctor_field_reads(n, rf, ctor)
                            _extract_toward_reference(n, rf, known)
                            _restore_aug_mask(n, rf, known)
                            _coalesce_toward_reference(n, rf, known)
                            _rename_by_role(n, rf, known)
                            _attr_built_in_local(n, rf, known)
                        shape()
                        _Canonical().visit(n)
                        now = ast.dump(n)
                        if now == before:
                            break
                        before = now
                    walk(n, q + ".")
        walk(tree, "")
        if ref is not None:
            # what the per-function passes uncovered may now match a helper of the reference (or free a fresh one)
            from . import canon
            before_ = ast.dump(tree)
            canon.inline_fresh_helpers(tree, ref)
            canon.restore_inlined_helpers(tree, ref)
            if ast.dump(tree) != before_:
                walk(tree, "")
    ast.fix_missing_locations(tree)
    return tree


def _decorator_kind(fn: ast.FunctionDef) -> str:
    for d in fn.decorator_list:
        if isinstance(d, ast.Name) and d.id == "property":
            return "getter"
        if isinstance(d, ast.Attribute) and d.attr == "setter":
            return "setter"
        if isinstance(d, ast.Name) and d.id == "staticmethod":
            return "static"
    return "method"


class Repo:
    def __init__(self, root: str, package: str = "canopen", overlay: Optional[Dict[str, str]] = None):
        """overlay: {relative path: source text} replaces files on disk (used by the self-test's variants)."""
        overlay = overlay or {}
        self.root = os.path.abspath(root)
        self.package = package
        self.modules: Dict[str, Mod] = {}
        self.by_rel: Dict[str, Mod] = {}
        pkg_dir = os.path.join(self.root, package)
        if not os.path.isdir(pkg_dir):
            raise AnalysisError("E1", f"package directory {pkg_dir} not found")
        _repo_effects(pkg_dir, self.root, overlay)
        for dirpath, dirnames, filenames in os.walk(pkg_dir):
            dirnames[:] = sorted(d for d in dirnames if d != "__pycache__")
            for fn in sorted(filenames):
                if not fn.endswith(".py"):
                    continue
                path = os.path.join(dirpath, fn)
                rel = os.path.relpath(path, self.root)
                if rel in overlay:
                    src = overlay[rel]
                else:
                    with open(path, encoding="utf-8") as fh:
                        src = fh.read()
                try:
                    tree = canonicalise(ast.parse(src, filename=rel), rel)
                except SyntaxError as e:
                    raise AnalysisError("E1", f"{rel} does not parse: {e}")
                name = rel[:-3].replace(os.sep, ".")
                if name.endswith(".__init__"):
                    name = name[: -len(".__init__")]
                mod = Mod(name=name, rel=rel, path=path, src=src, tree=tree)
                self._index(mod)
                self.modules[name] = mod
                self.by_rel[rel] = mod

    # -------------------------------------------------------------- indexing
    def _index(self, mod: Mod) -> None:
        is_pkg = mod.rel.endswith("__init__.py")
        for st in mod.tree.body:
            self._index_stmt(mod, st, is_pkg)

    def _index_stmt(self, mod: Mod, st: ast.stmt, is_pkg: bool) -> None:
        if isinstance(st, ast.Import):
            for a in st.names:
                local = a.asname or a.name.split(".")[0]
                target = a.name if a.asname else a.name.split(".")[0]
                mod.imports[local] = ("mod", target)
        elif isinstance(st, ast.ImportFrom):
            base = st.module or ""
            if st.level:
                parts = mod.name.split(".")
                if not is_pkg:
                    parts = parts[:-1]
                parts = parts[: len(parts) - (st.level - 1)]
                base = ".".join(parts + ([st.module] if st.module else []))
            for a in st.names:
                if a.name == "*":
                    mod.stars.append(base)
                else:
                    mod.imports[a.asname or a.name] = ("sym", base, a.name)
        elif isinstance(st, (ast.Assign, ast.AnnAssign)):
            targets = st.targets if isinstance(st, ast.Assign) else [st.target]
            value = st.value
            if value is None:
                return
            for t in targets:
                if isinstance(t, ast.Name):
                    if t.id in mod.consts:
                        mod.multi_assigned.add(t.id)
                    mod.consts[t.id] = value
        elif isinstance(st, ast.ClassDef):
            cls = Cls(name=st.name, node=st, mod=mod)
            for cst in st.body:
                if isinstance(cst, (ast.Assign, ast.AnnAssign)):
                    targets = cst.targets if isinstance(cst, ast.Assign) else [cst.target]
                    if cst.value is None:
                        continue
                    for t in targets:
                        if isinstance(t, ast.Name):
                            cls.consts[t.id] = cst.value
                elif isinstance(cst, ast.FunctionDef):
                    kind = _decorator_kind(cst)
                    key = cst.name + (".setter" if kind == "setter" else "")
                    cls.methods[key] = Func(name=cst.name, qualname=f"{st.name}.{key}", node=cst,
                                            mod=mod, cls=cls, kind=kind)
            mod.classes[st.name] = cls
        elif isinstance(st, ast.FunctionDef):
            mod.funcs[st.name] = Func(name=st.name, qualname=st.name, node=st, mod=mod, kind="function")
            # nested functions, addressable as outer.inner
            for sub in ast.walk(st):
                if isinstance(sub, ast.FunctionDef) and sub is not st:
                    q = f"{st.name}.{sub.name}"
                    mod.funcs.setdefault(q, Func(name=sub.name, qualname=q, node=sub, mod=mod, kind="nested"))
        elif isinstance(st, ast.If):
            # e.g. `if TYPE_CHECKING:` -- index names but they are only imports
            for s in st.body + st.orelse:
                self._index_stmt(mod, s, is_pkg)

    # -------------------------------------------------------------- lookups
    def mod(self, rel: str, rule: str = "E1") -> Mod:
        m = self.by_rel.get(rel)
        if m is None:
            raise AnalysisError(rule, f"anchor module {rel} not found")
        return m

    def cls(self, rel: str, name: str, rule: str = "E1") -> Cls:
        m = self.mod(rel, rule)
        c = m.classes.get(name)
        if c is None:
            raise AnalysisError(rule, f"anchor class {rel}:{name} not found")
        return c

    def func(self, rel: str, qualname: str, rule: str = "E1") -> Func:
        m = self.mod(rel, rule)
        if "." in qualname:
            cname, rest = qualname.split(".", 1)
            c = m.classes.get(cname)
            if c is not None:
                f = self.method(c, rest)
                if f is not None and f.cls is c:
                    return f
                if f is not None:
                    return f
                raise AnalysisError(rule, f"anchor function {rel}:{qualname} not found")
        f = m.funcs.get(qualname)
        if f is None:
            raise AnalysisError(rule, f"anchor function {rel}:{qualname} not found")
        return f

    def try_func(self, rel: str, qualname: str) -> Optional[Func]:
        try:
            return self.func(rel, qualname)
        except AnalysisError:
            return None

    def resolve_class(self, mod: Mod, name: str) -> Optional[Cls]:
        """Class named `name` as visible in `mod` (own, imported or star-imported)."""
        if name in mod.classes:
            return mod.classes[name]
        imp = mod.imports.get(name)
        if imp and imp[0] == "sym":
            target = self.modules.get(imp[1])
            if target is not None:
                if imp[2] in target.classes:
                    return target.classes[imp[2]]
                # re-exported through a package __init__
                return self.resolve_class(target, imp[2]) if target is not mod else None
        for s in mod.stars:
            target = self.modules.get(s)
            if target is not None and name in target.classes:
                return target.classes[name]
        return None

    def bases(self, cls: Cls) -> List[Cls]:
        out = []
        for b in cls.base_names:
            c = self.resolve_class(cls.mod, b)
            if c is not None:
                out.append(c)
        return out

    def mro(self, cls: Cls) -> List[Cls]:
        seen, order = set(), []

        def rec(c: Cls):
            if id(c) in seen:
                return
            seen.add(id(c))
            order.append(c)
            for b in self.bases(c):
                rec(b)
        rec(cls)
        return order

    def method(self, cls: Cls, name: str) -> Optional[Func]:
        for c in self.mro(cls):
            if name in c.methods:
                return c.methods[name]
        return None

    def class_const(self, cls: Cls, name: str) -> Optional[tuple]:
        for c in self.mro(cls):
            if name in c.consts:
                return c, c.consts[name]
        return None

    def all_funcs(self) -> List[Func]:
        out = []
        for m in self.modules.values():
            out.extend(f for f in m.funcs.values() if f.kind == "function")
            for c in m.classes.values():
                out.extend(c.methods.values())
        return out

    def units(self) -> List[str]:
        return sorted(self.by_rel)

    def init_attrs(self, cls: Cls) -> Dict[str, ast.expr]:
        """self.<attr> = <expr> assignments in __init__ (own class then bases, first wins)."""
        out: Dict[str, ast.expr] = {}
        for c in self.mro(cls):
            f = c.methods.get("__init__")
            if f is None:
                continue
            for n in ast.walk(f.node):
                if isinstance(n, (ast.Assign, ast.AnnAssign)):
                    targets = n.targets if isinstance(n, ast.Assign) else [n.target]
                    for t in targets:
                        if (isinstance(t, ast.Attribute) and isinstance(t.value, ast.Name)
                                and t.value.id == "self" and n.value is not None):
                            out.setdefault(t.attr, n.value)
        return out
